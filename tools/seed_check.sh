#!/bin/bash
# ./tools/seed_check.sh <seed id> <src worktree> <property> <check ids...>
# Imports a sub-agent's seeded change into /verif/seeded/<id>/, confirms it (compiles, baseline suite
# green, demo fails with / passes without) in a scratch worktree, then runs the given checks against it.
export GOFLAGS=-mod=mod GOPROXY=off GOSUMDB=off GOTOOLCHAIN=local
ROOT="$(cd "$(dirname "$0")/.." && pwd)"
id="$1"; src="$2"; prop="$3"; shift 3; checks="$@"
D="$ROOT/seeded/$id"; mkdir -p "$D"
if [ -n "$src" ] && [ -d "$src" ]; then
  cp "$src/patch.diff" "$D/patch.diff"
  [ -f "$src/DEMO.md" ] && cp "$src/DEMO.md" "$D/DEMO.md"
  (cd "$src" && for f in $(git ls-files --others --exclude-standard | grep -E 'zz_demo|_demo' ); do mkdir -p "$D/demo/$(dirname $f)"; cp "$f" "$D/demo/$f"; done)
fi
W=/dev/shm/seed-$id-$$
git -C /repo worktree add -q --detach "$W" HEAD || exit 2
trap 'git -C /repo worktree remove --force "$W" >/dev/null 2>&1; rm -rf "$ROOT"/.build/alt-*seed-$id-$$* ; rm -rf /dev/shm/seed-ev-$$ /dev/shm/seed-patch-$$.diff' EXIT
applies=yes; git -C "$W" apply "$D/patch.diff" 2>/dev/null || { git -C "$W" apply -3 "$D/patch.diff" >/dev/null 2>&1 && git -C "$W" reset -q; } || applies=no
# (a later fix: commit can shift the context of an older patch: the 3-way fallback re-bases it; the
# re-based form is what the rest of this script applies and reverts)
git -C "$W" diff > /dev/shm/seed-patch-$$.diff; P=/dev/shm/seed-patch-$$.diff
compiles=no; (cd "$W" && go build ./... >/dev/null 2>&1) && compiles=yes
basefail=$(cd "$W" && go test -vet=off -count=1 ./... 2>&1 | grep -c "^FAIL\|^--- FAIL")
# demo with the change
cp -r "$D/demo/." "$W/" 2>/dev/null
demo_with=$(cd "$W" && go test -vet=off -count=1 -run 'ZZ|Demo|zz' ./... 2>&1 | grep -c "^--- FAIL\|^FAIL")
git -C "$W" apply -R "$P"
demo_without=$(cd "$W" && go test -vet=off -count=1 -run 'ZZ|Demo|zz' ./... 2>&1 | grep -c "^--- FAIL\|^FAIL")
git -C "$W" apply "$P"
(cd "$W" && git ls-files --others --exclude-standard | xargs -r rm -f)
results=""
for c in $checks; do
  out=$(cd "$ROOT" && REPO="$W" timeout -k 10 ${SEED_TIMEOUT:-2400} env VERIF_EVIDENCE_DIR=/dev/shm/seed-ev-$$ VERIF_BUDGET_S=${BUDGET:-280} ./run check $c --tier ${TIER:-quick} 2>&1); code=$?
  nv=$(echo "$out" | grep -c "^VIOLATION property=$c")
  first=$(echo "$out" | grep -A1 "^VIOLATION" | grep signature | head -2 | tr '\n' ';')
  results="$results{\"check\":\"$c\",\"tier\":\"${TIER:-quick}\",\"exit\":$code,\"violation_lines\":$nv,\"first_signatures\":\"$(echo $first | sed 's/"/\\"/g')\"},"
  echo "$id $c exit=$code violations=$nv $first"
done
python3 - "$D" "$id" "$prop" "$applies" "$compiles" "$basefail" "$demo_with" "$demo_without" "[${results%,}]" <<'PY'
import json,sys,os
D,id_,prop,applies,compiles,basefail,dw,dwo,res=sys.argv[1:10]
p=os.path.join(D,'meta.json')
meta=json.load(open(p)) if os.path.exists(p) else {}
meta.update({"id":id_,"breaks_property":prop,"patch_applies":applies=="yes","compiles":compiles=="yes","baseline_suite_failures_with_change":int(basefail),
  "demo_failures_with_change":int(dw),"demo_failures_without_change":int(dwo),
  "confirmed": applies=="yes" and compiles=="yes" and int(basefail)==0 and int(dw)>0 and int(dwo)==0})
runs=meta.get("check_runs",[])
for r in json.loads(res):
    runs=[x for x in runs if not (x["check"]==r["check"] and x.get("tier")==r.get("tier"))]+[r]
meta["check_runs"]=runs
meta["detected_by"]=sorted({r["check"] for r in runs if r["exit"]==1 and r["violation_lines"]>0})
meta["what_was_run"]="tools/seed_check.sh: scratch worktree of /repo HEAD + patch.diff; `go build ./...`; `go test -vet=off -count=1 ./...` (baseline, must stay green); demo test with and without the change; then `REPO=<worktree> ./run check <id> --tier quick` for the listed checks"
json.dump(meta,open(p,'w'),indent=1)
print("confirmed" if meta["confirmed"] else "NOT CONFIRMED", "detected_by", meta["detected_by"])
PY
