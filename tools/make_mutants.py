#!/usr/bin/env python3
"""Generates /verif/mutants/mNN.patch (+ mutants.json) from textual edits against /repo's HEAD.
Each mutant is a small, realistic, property-breaking edit that keeps the repository's own tests green
(checked by `./run selftest --baseline`)."""
import json, os, subprocess, shutil, sys
root = os.path.dirname(os.path.dirname(os.path.abspath(__file__)))
REPO = os.environ.get("REPO", "/repo")
work = "/dev/shm/mutgen"
M = [
 ("m01", "record.go", "ttl > 0 && uint64(ttl)+timestamp > uint64(now)", "ttl > 0 && uint64(ttl)+timestamp >= uint64(now)", ["C01"], "IsExpired: a pair is still live at now == timestamp+TTL"),
 ("m03", "bptree.go", "\t\t\tif compare(n.Keys[i], end) > 0 {\n\t\t\t\tscanFlag = false\n\t\t\t\tbreak\n\t\t\t}\n\t\t\tkeys = append(keys, n.Keys[i])\n\t\t\tpointers = append(pointers, n.pointers[i])\n\t\t\tnumFound++\n\t\t}\n\n\t\tn, _ = n.pointers[order-1].(*Node)\n\n\t\tj = 0\n\t}\n\n\treturn\n}\n\n// All returns", "\t\t\tif compare(n.Keys[i], end) >= 0 {\n\t\t\t\tscanFlag = false\n\t\t\t\tbreak\n\t\t\t}\n\t\t\tkeys = append(keys, n.Keys[i])\n\t\t\tpointers = append(pointers, n.pointers[i])\n\t\t\tnumFound++\n\t\t}\n\n\t\tn, _ = n.pointers[order-1].(*Node)\n\n\t\tj = 0\n\t}\n\n\treturn\n}\n\n// All returns", ["C01"], "findRange drops the end key of a RangeScan"),
 ("m04", "tx.go", "\t\toff = tx.db.ActiveFile.writeOff\n\n\t\tif _, err := tx.db.ActiveFile.WriteAt(entry.Encode(), tx.db.ActiveFile.writeOff); err != nil {", "\t\tif _, err := tx.db.ActiveFile.WriteAt(entry.Encode(), tx.db.ActiveFile.writeOff); err != nil {", ["C01", "C19"], "Commit: the hint offset of an entry is the offset of the previous entry (stale off) - only visible where values are read back through the hint (key-only mode)"),
 ("m05", "tx.go", "\t\tif i == lastIndex {\n\t\t\tentry.Meta.status = Committed\n\t\t}", "\t\tif i == 0 {\n\t\t\tentry.Meta.status = Committed\n\t\t}", ["C10"], "Commit marks the FIRST record of a transaction committed: a crash after it exposes a partial transaction"),
 ("m06", "tx.go", "\t\tif tx.db.opt.SyncEnable {\n\t\t\tif err := tx.db.ActiveFile.rwManager.Sync(); err != nil {", "\t\tif tx.db.opt.SyncEnable && i != lastIndex {\n\t\t\tif err := tx.db.ActiveFile.rwManager.Sync(); err != nil {", ["C11"], "Commit does not sync the last (commit) record"),
 ("m07", "db.go", "\t\tif _, ok := db.committedTxIds[r.H.meta.txID]; ok {\n\t\t\tbucket := string(r.H.meta.bucket)", "\t\tif _, ok := db.committedTxIds[r.H.meta.txID]; ok || r.H.meta.ds == DataStructureBPTree {\n\t\t\tbucket := string(r.H.meta.bucket)", ["C10"], "recovery indexes KV records of uncommitted transactions"),
 ("m08", "db.go", "\tif err = fn(tx); err != nil {\n\t\tif errRollback := tx.Rollback(); errRollback != nil {", "\tif err = fn(tx); err != nil {\n\t\tif errRollback := tx.Commit(); errRollback != nil {", ["C12"], "managed commits the pending writes when the body returns an error"),
 ("m09", "tx.go", "func (tx *Tx) lock() {\n\tif tx.writable {\n\t\ttx.db.mu.Lock()", "func (tx *Tx) lock() {\n\tif tx.writable && len(tx.db.BPTreeIdx) == 0 {\n\t\ttx.db.mu.Lock()", None, "(unused)"),
 ("m10", "tx.go", "\ttx.buildIdxes(writesLen)\n\n\ttx.unlock()\n", "\ttx.unlock()\n\n\ttx.buildIdxes(writesLen)\n", ["C14"], "Commit releases the lock before the list/set/zset indexes are updated"),
 ("m11", "db.go", "\terr := db.View(func(tx *Tx) error {\n\t\treturn filesystem.CopyDir(db.opt.Dir, dir)\n\t})", "\terr := db.View(func(tx *Tx) error {\n\t\treturn nil\n\t})\n\tif err == nil {\n\t\terr = filesystem.CopyDir(db.opt.Dir, dir)\n\t}", ["C18"], "Backup copies the directory after its read transaction has ended"),
 ("m12", "db.go", "\tif db.opt.EntryIdxMode == HintBPTSparseIdxMode && hasBptDirFlag == false && hasDataFlag == true {", "\tif db.opt.EntryIdxMode == HintBPTSparseIdxMode && hasBptDirFlag == false && hasDataFlag == true && len(files) > 2 {", ["C22"], "RAM-mode data with at most two files may be opened in sparse mode"),
 ("m13", "entry.go", "\tcrc = crc32.Update(crc, crc32.IEEETable, e.Key)\n\tcrc = crc32.Update(crc, crc32.IEEETable, e.Value)", "\tcrc = crc32.Update(crc, crc32.IEEETable, e.Key)", None, "(breaks tests)"),
 ("m14", "ds/list/list.go", "\tfor i = valueLen - 1; i >= 0; i-- {\n\t\tnewList[i] = values[j]\n\t\tj++\n\t}", "\tfor i = 0; i < valueLen; i++ {\n\t\tnewList[i] = values[j]\n\t\tj++\n\t}", ["C05"], "LPush of several values keeps their argument order instead of reversing it"),
 ("m15", "ds/zset/sortedset.go", "\t\t} else {\n\t\t\tupdate[i].level[i].span -= 1\n\t\t}", "\t\t}", ["C07"], "deleteNode does not shorten the spans of the levels above the removed node"),
 ("m16", "ds/set/set.go", "\tfor _, item := range items {\n\t\tdelete(s.M[key], string(item))\n\t}\n\n\treturn nil\n}\n\n// SHasKey", "\tfor _, item := range items {\n\t\tdelete(s.M[key], string(item))\n\t}\n\tif len(s.M[key]) == 1 {\n\t\tdelete(s.M, key)\n\t}\n\n\treturn nil\n}\n\n// SHasKey", ["C06"], "SRem drops the whole set when one member is left"),
 ("m17", "db.go", "\tcase DataRPushFlag:\n\t\t_, _ = db.ListIdx[bucket].RPush(string(r.E.Key), r.E.Value)\n\tcase DataLRemFlag:\n\t\tcountAndValueIndex", "\tcase DataRPushFlag:\n\t\t_, _ = db.ListIdx[bucket].LPush(string(r.E.Key), r.E.Value)\n\tcase DataLRemFlag:\n\t\tcountAndValueIndex", ["C08"], "Open replays RPush records as LPush"),
 ("m18", "db.go", "\tif entry.Meta.Flag == DataDeleteFlag || entry.Meta.Flag == DataRPopFlag ||", "\tif entry.Meta.Flag == DataRPopFlag ||", ["C15"], "Merge does not filter tombstones (a deleted key's tombstone is rewritten as ... ) "),
 ("m19", "db.go", "\t\t\t\t\tif r.H.fileID > int64(pendingMergeFId) {\n\t\t\t\t\t\tskipEntry = true\n\t\t\t\t\t} else if", "\t\t\t\t\tif r.H.fileID >= int64(pendingMergeFId) && r.H.meta.TTL > 0 {\n\t\t\t\t\t\tskipEntry = true\n\t\t\t\t\t} else if", None, "(unused)"),
 ("m21", "tx_bptree.go", "\tlive := Records{}\n\tfor _, r := range records {\n\t\tif r.H.meta.Flag == DataDeleteFlag || r.IsExpired() {\n\t\t\tcontinue\n\t\t}\n\t\tlive = append(live, r)\n\t}", "\tlive := Records{}\n\tfor _, r := range records {\n\t\tif r.H.meta.Flag == DataDeleteFlag {\n\t\t\tcontinue\n\t\t}\n\t\tlive = append(live, r)\n\t}", ["C03"], "paging counts expired keys"),
 ("m22", "tx_zset.go", "func (tx *Tx) ZRem(bucket, key string) error {\n\tif err := tx.checkTxIsClosed(); err != nil {\n\t\treturn err\n\t}\n\n\tif _, ok := tx.db.SortedSetIdx[bucket]; !ok {\n\t\treturn ErrBucket\n\t}\n", "func (tx *Tx) ZRem(bucket, key string) error {\n\tif err := tx.checkTxIsClosed(); err != nil {\n\t\treturn err\n\t}\n\n\tif _, ok := tx.db.SortedSetIdx[bucket]; !ok {\n\t\treturn ErrBucket\n\t}\n\n\tif !tx.writable {\n\t\ttx.db.SortedSetIdx[bucket].Remove(key)\n\t\treturn nil\n\t}\n", ["C12"], "ZRem inside a read-only transaction removes the member from the in-memory set directly"),
 ("m23", "tx_bptree.go", "\t\t\tif idxMode == HintKeyAndRAMIdxMode {\n\t\t\t\tpath := tx.db.getDataPath(r.H.fileID)\n\t\t\t\tdf, err := NewDataFile(path, tx.db.opt.SegmentSize, tx.db.opt.RWMode)\n\t\t\t\tdefer df.rwManager.Close()", "\t\t\tif idxMode == HintKeyAndRAMIdxMode {\n\t\t\t\tpath := tx.db.getDataPath(tx.db.MaxFileID)\n\t\t\t\tdf, err := NewDataFile(path, tx.db.opt.SegmentSize, tx.db.opt.RWMode)\n\t\t\t\tdefer df.rwManager.Close()", ["C19", "C01"], "key-only Get reads the value from the active file regardless of the hint's file id"),
 ("m24", "ds/list/list.go", "\tif end >= size {\n\t\tend = size - 1\n\t}\n\n\tif start > end {", "\tif start > end {", ["C05", "C20"], "LRange no longer clamps end to the last index (panic on end >= size)"),
 ("m26", "db.go", "r.H.fileID == int64(pendingMergeFId) && r.H.dataPos > uint64(off)", "r.H.fileID == int64(pendingMergeFId) && r.H.dataPos >= uint64(off)", ["C15"], "Merge skips the newest version of a key when it is in the file being merged (key lost)"),
 ("m27", "tx.go", "\tif tx.db.txIDNode == nil {\n\t\tnode, err := snowflake.NewNode(tx.db.opt.NodeNum)", "\tif tx.db.txIDNode == nil || !tx.writable {\n\t\tnode, err := snowflake.NewNode(tx.db.opt.NodeNum)", None, "(unused)"),
 ("m28", "bptree.go", "\tqueueMu.Lock()\n\tdefer queueMu.Unlock()\n\n", "", ["C14"], "WriteNodes of two databases share the traversal queue unguarded"),
 ("m30", "db.go", "\t\t\tif err == ErrCrc {\n\t\t\t\tif off < db.opt.SegmentSize {", "\t\t\tif err == ErrCrc && off == 0 {\n\t\t\t\tif off < db.opt.SegmentSize {", ["C10", "C09"], "Open tolerates a torn last record only at the start of the file (getActiveFileWriteOff); the earlier form of this mutant - no tolerance in parseDataFiles - became equivalent when recovery started to wipe the torn tail before the files are parsed"),
 ("m31", "tx.go", "\t\tif tx.db.ActiveFile.ActualSize+entrySize > tx.db.opt.SegmentSize {", "\t\tif tx.db.ActiveFile.ActualSize+entrySize >= tx.db.opt.SegmentSize {", None, "(benign: rotates one entry early)"),
 ("m32", "tx_set.go", "\tif err := tx.sPut(bucket1, key1, DataDeleteFlag, item); err != nil {\n\t\treturn false, err\n\t}\n\n\tif err := tx.sPut(bucket2, key2, DataSetFlag, item); err != nil {", "\tif err := tx.sPut(bucket2, key2, DataDeleteFlag, item); err != nil {\n\t\treturn false, err\n\t}\n\n\tif err := tx.sPut(bucket2, key2, DataSetFlag, item); err != nil {", ["C06"], "SMove forgets to remove the member from the source"),
 ("m33", "tx.go", "\ttx.unlock()\n\n\ttx.db = nil\n\ttx.pendingWrites = nil\n\n\treturn nil\n}\n\n// lock locks", "\ttx.db = nil\n\ttx.pendingWrites = nil\n\n\treturn nil\n}\n\n// lock locks", None, "(breaks tests: deadlock)"),
 ("m34", "rwmanger_mmap.go", "\treturn copy(mm.m[off:], b), nil\n}\n\n// ReadAt", "\tif int64(len(b)) >= int64(len(mm.m))-off {\n\t\tb = b[:int64(len(mm.m))-off-1]\n\t}\n\treturn copy(mm.m[off:], b), nil\n}\n\n// ReadAt", ["C19", "C09"], "MMap WriteAt drops the last byte of a record that ends exactly at the segment end"),
 ("m35", "db.go", "\tdb.closed = true\n\n\tdb.ActiveFile.rwManager.Close()", "\tdb.closed = true\n\n\tif db.opt.RWMode != MMap {\n\t\tdb.ActiveFile.rwManager.Close()\n\t}", None, "(not observable)"),
 ("m36", "tx_zset.go", "\tscoreBytes := []byte(strconv.FormatFloat(score, 'f', -1, 64))", "\tscoreBytes := []byte(strconv.FormatFloat(score, 'f', 3, 64))", None, "(scores in alphabets are integral)"),
 ("m37", "tx_list.go", "\tif count > size || -count > size {\n\t\treturn 0, list.ErrCount\n\t}", "\tif count >= size || -count > size {\n\t\treturn 0, list.ErrCount\n\t}", ["C05"], "LRem rejects count == size"),
 ("m38", "bucket_meta.go", None, None, None, ""),
]
def main():
    shutil.rmtree(work, ignore_errors=True)
    subprocess.check_call(["git", "-C", REPO, "worktree", "add", "-q", "--detach", work, "HEAD"])
    meta = []
    try:
        for (mid, f, old, new, expect, what) in M:
            if not expect or old is None:
                continue
            p = os.path.join(work, f)
            s = open(p).read()
            if s.count(old) != 1:
                print("SKIP", mid, "pattern occurs", s.count(old), "times in", f); continue
            open(p, "w").write(s.replace(old, new))
            if f.endswith(".go"):
                subprocess.call(["gofmt", "-l", p], stdout=subprocess.DEVNULL)
            diff = subprocess.check_output(["git", "-C", work, "diff"]).decode()
            open(os.path.join(root, "mutants", mid + ".patch"), "w").write(diff)
            subprocess.check_call(["git", "-C", work, "checkout", "-q", "--", "."])
            meta.append({"id": mid, "file": f, "expect": expect, "what": what})
        json.dump(meta, open(os.path.join(root, "mutants", "mutants.json"), "w"), indent=1)
        print(len(meta), "mutants written")
    finally:
        subprocess.call(["git", "-C", REPO, "worktree", "remove", "--force", work])
main()
