#!/usr/bin/env python3
"""Regenerates /verif/MANIFEST.json from tools/checks.json (claimed checks) and properties.jsonl."""
import json, os
root = os.path.dirname(os.path.dirname(os.path.abspath(__file__)))
props = [json.loads(l) for l in open(os.path.join(root, 'properties.jsonl'))]
claimed = json.load(open(os.path.join(root, 'tools', 'checks.json')))
checks, na = [], []
for p in props:
    pid = p['id']
    c = claimed.get(pid)
    if not c or c.get('not_applicable'):
        na.append({"property_id": pid, "reason": (c or {}).get('not_applicable', 'check not built yet (work in progress; see DESIGN.md section 5 for the planned procedure)')})
        continue
    checks.append({
        "property_id": pid,
        "quick_cmd": "./run check %s --tier quick" % pid,
        "thorough_cmd": "./run check %s --tier thorough" % pid,
        "evidence_file": "/verif/evidence/%s.json" % pid,
        "replay_cmd_template": "./run replay {path}",
        "engine": c['engine'],
        "level_claimed": {"category": c['category'], "text": c['text'], "design_ref": c.get('design_ref', 'DESIGN.md section 5 ' + pid)},
        "level_note": c['note'],
        "technique": c['technique'],
    })
m = {
    "version": 1,
    "setup_cmd": "./run setup",
    "hooks": {
        "guard": "verif",
        "enable": "go build -tags verif -overlay <generated overlay.json>: import-level interposition of os/sync/time/math/rand/io/ioutil/mmap-go by virtual shim packages, generated from /repo's working tree by ./run (no hook lines are committed to /repo)",
        "baseline_off_cmd": "cd /repo && GOFLAGS=-mod=mod GOPROXY=off GOSUMDB=off GOTOOLCHAIN=local go test -vet=off -count=1 -json ./...",
        "source_commits": [],
        "add_only": True
    },
    "engines": [
        {"name": "E1-history-explorer", "path": "/verif/mc/eng/hist.go", "serves_properties": sorted(k for k, v in claimed.items() if 'E1' in v.get('engine', '')), "kind_free_text": "bounded exhaustive BFS over operation sequences on the real DB, replay-from-scratch successors, exact-state dedup, reference-model / differential oracles"},
        {"name": "E2-crash-fault-enumerator", "path": "/verif/mc/eng/crash.go", "serves_properties": sorted(k for k, v in claimed.items() if 'E2' in v.get('engine', '')), "kind_free_text": "file-system event log recorded by import-level shims; every crash point, torn-write cut, unsynced-subset power-loss image and injected fault of every workload"},
        {"name": "E3-controlled-scheduler", "path": "/verif/mc/eng/sched.go", "serves_properties": sorted(k for k, v in claimed.items() if 'E3' in v.get('engine', '')), "kind_free_text": "cooperative scheduler at every shim entry, preemption-bounded DFS over all interleavings, porcupine strict-serializability oracle"},
        {"name": "E4-codec-enumerator", "path": "/verif/mc/eng/codec.go", "serves_properties": sorted(k for k, v in claimed.items() if 'E4' in v.get('engine', '')), "kind_free_text": "field grid x every bit flip x every truncation through the real encoders/decoders"},
    ],
    "checks": checks,
    "not_applicable": na,
    "notes": "All checks rebuild the instrumented harness from /repo's current working tree (./run). Known genuine defects: /verif/known_findings.json. Design: /verif/DESIGN.md."
}
json.dump(m, open(os.path.join(root, 'MANIFEST.json'), 'w'), indent=1)
print("claimed:", len(checks), "not_applicable:", len(na))
