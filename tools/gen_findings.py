#!/usr/bin/env python3
"""Writes /verif/known_findings.json (committed, read-only at run time)."""
import json, os
root = os.path.dirname(os.path.dirname(os.path.abspath(__file__)))
F = []
def fixed(prop, commit, what, sig=""):
    F.append({"property": prop, "status": "fixed", "commit": commit, "signature": sig, "what": "fixed: property=%s %s %s" % (prop, commit, what)})
def open_(prop, sigs, what):
    for s in sigs:
        F.append({"property": prop, "status": "open", "signature": s, "what": what})

# ---- repaired defects (a fixed entry suppresses nothing)
fixed("C01", "fad6e4e", "MMap: a record with an empty value ending exactly at the segment end could not be read back (Get error in key-only mode, Open error)", "C01|obs-mismatch|Get:err-for-ok|K/M|")
fixed("C09", "e95e903", "sparse mode: a read of a never-written bucket (GetAll) created an empty <bucket>.meta and the next Open failed with EOF", "C09|open-error|EOF|S/*|")
fixed("C09", "e55ab86", "MMap: Open failed with 'offset out of mapped region' when the active segment was exactly full", "C09|open-error|offset-out-of-mapped-region|*/M|")
fixed("C09", "26a15eb", "Open failed on committed set/list operations that were no-ops at commit time (SRem of a missing key, second pop of an emptied list, LRem/LSet/LTrim invalidated inside the transaction)", "C09|open-error|SRem|KV/*|")
fixed("C10", "b23ea99", "two transactions beginning in one millisecond shared an id: records of a failed transaction were adopted as committed at the next Open", "C10|recovered-state|*|*|samems")
fixed("C10", "9fd13e3", "a torn last record (process died inside a record write) made Open fail with a crc error", "C10|open-error|crc-error@torn(.dat)|*|")
fixed("C15", "f7de8b7", "Merge never set the file id of the rewrite file: in key-only mode reads after Merge returned nil entries / foreign bytes and 0.dat was recreated", "C15|merge-changed-reads|Get:nil|K/*|merge,rot")
fixed("C15", "b82e8c2", "Merge rewrote records of transactions that never committed as committed", "C15|merge-changed-reads-after-reopen|Get:ok-for-err|*|merge")
fixed("C12", "fea2887", "an oversized later entry failed Commit after earlier entries had been written and indexed: scans showed the failed transaction's values", "C12|effect-in-process|*|*|")
fixed("C06", "52a6bea", "SMoveByOneBucket/TwoBuckets mutated the sets in place: effective in read-only and rolled-back transactions, never logged (lost on reopen), and moved non-members into the destination", "C08|reopen-diff|SMembers:*|KV/*|")
fixed("C14", "08b0e3b", "two sparse-mode databases in one process shared the package-level node queue of WriteNodes: committed keys of a sealed segment became unreadable (one preemption)", "C14|final-state|Get:err-for-ok|S/F|C14/H3-two-dbs/S")
fixed("C14", "d47bb7d", "sparse-mode scans sorted db.BPTreeRootIdxes in place under the read lock (data race between concurrent views)", "C14|data-race|race:BPTreeRootIdxWrapper.Less<>BPTreeRootIdxWrapper.Swap|*|")
fixed("C05", "d8a4e69", "List.LRange (Tx.LRange, Tx.LTrim, replay of LTrim) panicked on start<0 with end==0 and on start < -size", "C05|panic|LRange:panic|*|")
fixed("C05", "2f192c7", "LRem with count math.MinInt64 panicked inside Commit (index out of range)", "C05|panic|LRem:panic|*|")
fixed("C07", "e13893b", "a reversed score range below every member returned the skip-list header (a non-member with empty key)", "C07|non-member-returned|ZRangeByScore:non-member|*|")
fixed("C07", "4c31dc3", "FindRank/FindRevRank of the member with the empty key stopped at the header (rank 0 = 'not a member')", "C07|query|ZRank:wrong-value|*|")
fixed("C05", "889c094", "LRem of a value containing '|' removed the elements equal to the part before the first '|'", "C05|obs-mismatch|LRange:*|KV/*|")
fixed("C20", "603ffc5", "Merge on a closed database dereferenced a nil index", "C20|panic|panic:Close;Merge[*]|*|")
fixed("C20", "784bd34", "Open with an unknown RWMode panicked (nil RWManager)", "C20|panic|panic:Open(RWMode 7)|*|")
fixed("C09", "8f359e9", "sparse mode: a bucket metadata file created or half written when the process died made Open fail with EOF / crc error", "C09|open-error|EOF@*(.meta)|S/*|")
fixed("C03", "deeeb5c", "RAM index modes: deleted and expired keys consumed offset and limit of PrefixScan / PrefixSearchScan", "C03|obs-mismatch|PrefixScan(lim):err-for-ok|K*/F|")

# ---- open findings (genuine defects that are recorded, not repaired)
SP = "sparse index mode (HintBPTSparseIdxMode): "
open_("C02", ["C02|obs-mismatch|PrefixScan(nolimit):err-for-ok|S/*|*", "C02|obs-mismatch|PrefixScan(nolimit):missing|S/*|*"],
      SP + "PrefixScan(bucket, prefix, 0, ScanNoLimit) never reads sealed segments (limitNum -1 makes leftNum negative): keys that live only in older segments are missing; PrefixScan with a large positive limit is correct")
open_("C19", ["C19|obs-diff|PrefixScan(nolimit):err-for-ok|S/*|*", "C19|obs-diff|PrefixScan(nolimit):missing|S/*|*"],
      SP + "PrefixScan with ScanNoLimit misses keys of sealed segments, so its result differs from the RAM index modes (same defect as the C02 finding)")
open_("C03", ["C03|obs-mismatch|PrefixScan(*):*|S/*|*", "C03|obs-mismatch|PrefixSearchScan(*):*|S/*|*"],
      SP + "offset and limit of PrefixScan/PrefixSearchScan are applied per segment and before deleted, expired and superseded records are dropped: pages are short, skip live keys or contain stale entries (the RAM modes were repaired in deeeb5c)")
open_("C04", ["C04|interference|Get|S/*|*", "C04|interference|RangeScan|S/*|*", "C04|interference|PrefixScan|S/*|*"],
      SP + "the on-disk index is keyed by the plain concatenation bucket+key, so buckets whose name is a prefix of another bucket+key ('' / 'a' / 'ab' with keys 'b','bc') see and shadow each other's keys")
open_("C04", ["C04|obs-mismatch|*|S/*|*"],
      SP + "a transaction that writes several buckets records the bucket metadata (key range used by GetAll) for the bucket of its LAST entry only, computed over the keys of all its entries; together with the bucket+key concatenation ambiguity, reads of one bucket depend on writes to another")
open_("C04", ["C04|obs-mismatch|L*|KV/*|merge*", "C04|obs-mismatch|RPeek:*|KV/*|merge*", "C04|call-result|L*|KV/*|merge*", "C04|call-result|RPop:*|KV/*|merge*"],
      "Merge does not preserve lists (the defect recorded under C15) - seen here because Merge is in C04's alphabet")
open_("C06", ["C06|call-result|SRem:err-for-ok|*|ds/set", "C06|obs-mismatch|*|KV/*|*empty-member*", "C06|call-result|*|KV/*|*empty-member*", "C06|reopen-diff|*|KV/*|*empty-member*"],
      "the empty member can be added to a set (SAdd) but never removed: Set.SRem rejects an empty first item ('item empty', required by the repository's own TestSet_SRem), so SRem/SPop/SMove of \"\" return success and leave it in the set (signatures carry the tag empty-member: histories that never touch the empty member are not covered by this entry)")
open_("C07", ["C07|call-result|ZRem:err-for-ok|KV/*|*"],
      "the member with the empty key can be added (ZAdd stores key|score) but ZRem(bucket, \"\") is rejected with ErrKeyEmpty, so it can only be removed by rank or pop")
open_("C10", ["C10|recovered-state|*|S/*|*"],
      SP + "not crash consistent: scans do not filter uncommitted records, the committed-transaction index of a sealed segment (bpt/txid) and the bucket metadata are written after the commit record, so after a crash committed keys can be missing from scans/GetAll and in-flight records visible (RAM modes: no finding)")
open_("C11", ["C11|recovered-state|*|S/*|*"],
      SP + "same crash-consistency defects under power loss with SyncEnable (index and metadata files are written after the synced commit record)")
open_("C11", ["C11|recovered-state|*@powerloss|K*/*|in-merge", "C11|recovered-state|*@powerloss|K*/*|in-merge,*", "C11|recovered-state|*@powerloss|K*/*|*,in-merge"],
      "Merge unlinks the merged segment files without ever syncing the directory: after a power loss during Merge an older segment can reappear while a newer one, which held the tombstone of a key (or the SRem of a member), stays removed, so a deleted key comes back (the property counts an unsynced removal as one that may be undone)")
fixed("C12", "6479459", "a write that failed after some bytes had reached the file left them behind the write offset; when the next committed entry did not fit, the segment was sealed with that debris and the next Open failed with a crc error (also C09)", "C12|open-error-after-fault|crc-error@write .dat|K*/F|fault")
fixed("C12", "aaed9cd", "a create/truncate error of the next segment during rotation left db.ActiveFile nil: the transaction failed, and the next Commit and Close panicked (nil pointer dereference), so the database could be neither used nor closed", "C12|close-failed-after-fault|Close@create .dat|*|fault")
open_("C12", ["C12|effect-on-later-commit|*|S/*|fault"],
      SP + "a record write or sync that fails leaves the key position map (BPTreeKeyEntryPosMap) pointing at the entry that was not written; after the next rotation the sparse index of the sealed segment refers to a hole and Get/GetAll/scans panic with a nil entry")
open_("C12", ["C12|effect-in-process|Get:*|*|fault", "C12|effect-in-process|GetAll:*|*|fault", "C12|effect-in-process|PrefixScan(*|*|fault", "C12|effect-in-process|RangeScan:*|*|fault", "C12|effect-after-reopen|*|S/*|fault"],
      "an I/O error in the middle of Commit (record write, sync, or create/truncate of the next segment during rotation) returns an error but leaves the transaction's earlier entries inserted in the in-memory index (and, after a failed rotation, the active file closed): reads in the running process change although the transaction failed; in sparse mode the partial commit also survives reopen")
open_("C13", ["C13|call-result|*|KV/*|*", "C13|obs-mismatch|SCard:wrong-value|KV/*|*", "C13|obs-mismatch|SIsMember:wrong-value|KV/*|*", "C13|obs-mismatch|SMembers:extra|KV/*|*", "C13|obs-mismatch|SUnionByOneBucket:extra|KV/*|*",
              "C13|obs-mismatch|LRange:extra|KV/*|*", "C13|obs-mismatch|LSize:wrong-value|KV/*|*", "C13|obs-mismatch|LPeek:wrong-value|KV/*|*", "C13|obs-mismatch|RPeek:wrong-value|KV/*|*"],
      "calls inside a write transaction read the committed indexes only: Get/scans/LRange/SMembers/ZScore do not see earlier writes of the same transaction, a second pop returns the same element again, LSet/LTrim/LRem/SMove are validated against the state at the start of the transaction (and may become no-ops at commit)")
open_("C17", ["C17|reopen-diff|*:err-for-ok|K*/F|*", "C17|final-state|Get:wrong-value|K*/F|*", "C17|not-serializable|history:Get|K*/F|*", "C17|data-race|race:*(*DB).Merge*|*|*", "C17|data-race|race:runtime-fatal*|*|*", "C17|data-race|race:panic*|*|*", "C17|data-race|race:*(*DB).getPendingMergeEntries*|*|*", "C17|data-race|race:*(*DB).reWriteData*|*|*",
               "C17|data-race|race:*(*DB).getRecordFromKey*|*|*", "C17|data-race|race:*(*DB).isFilterEntry*|*|*", "C17|data-race|race:*(*DB).getMaxFileIDAndFileIDs*|*|*"],
      "Merge is not isolated from concurrent transactions: it reads the indexes without the lock and rewrites entries it selected earlier, so an Update that commits while Merge runs can be overwritten by the older value, or (Merge of segments in which nothing is live, one preemption) be missing after the next Open (also reported by the race detector: Merge vs Commit/buildBPTreeIdx/UpdateRecord; in the free-running pass also as a Go runtime 'concurrent map read and map write' abort or as a panic inside a concurrent Commit, which leaves the database lock held)")
open_("C15", ["C15|merge-changed-reads|L*|KV/*|*", "C15|merge-changed-reads-after-reopen|L*|KV/*|*", "C15|merge-changed-reads|RPeek:*|KV/*|*", "C15|merge-changed-reads-after-reopen|RPeek:*|KV/*|*",
               "C15|post-merge-write-lost-on-reopen|L*|KV/*|*", "C15|post-merge-write-lost-on-reopen|RPeek:*|KV/*|*", "C15|obs-mismatch|L*|KV/*|merge*", "C15|obs-mismatch|RPeek:*|KV/*|merge*"],
      "Merge does not preserve lists: the rewrite transaction re-applies the surviving pushes to the in-memory list (elements duplicated in the running process), drops LSet/LTrim/LRem/pop records but keeps every push whose value still occurs, so after reopen the list differs or is gone")
open_("C15", ["C15|merge-changed-reads-after-reopen|SHasKey:*|KV/*|*"],
      "Merge drops the records of a set whose members were all removed: SHasKey of the emptied set is true before Merge and 'not found' after Merge + reopen")
open_("C16", ["C16|recovered-state|L*|KV/*|*", "C16|recovered-state|RPeek:*|KV/*|*", "C16|recovered-state|SHasKey:*|KV/*|*"],
      "a crash during (or a clean reopen after) Merge shows the list/emptied-set defects of Merge recorded under C15: pushes rewritten without the LSet/pop records, duplicates when both the old and the rewritten segment survive")
fixed("C15", "8f7687e", "Merge removed the active file when none of its entries had to be rewritten (e.g. it only held a tombstone): later commits went to an unlinked file and were lost", "C15|obs-mismatch|Get:nil|K/F|merge")
fixed("C02", "084af14", "sparse mode: RangeScan/GetAll skipped a sealed segment whose key range strictly contains the scanned range", "C02|obs-mismatch|RangeScan:missing|S/F|rot")
fixed("C10", "c945f09", "a torn record left at the tail of a segment survived recovery; when the next commit rotated the file, every later Open failed with a crc error (found by the post-recovery probe writes)", "C10|post-recovery-open-error|crc-error@torn(.dat)|K*/*|*")
fixed("C20", "4a2cfe8", "Open panicked (nil entry) on a directory holding sorted-set records in HintKeyAndRAMIdxMode", "C20|panic|panic:ZAdd;Close;Open[K]|*|")
fixed("C15", "57f154e", "Merge dropped set/list/sorted-set entries whose bucket and key also exist as a newer key/value pair (lookup in the key/value index regardless of the data structure)", "C04|interference|SMembers|KV/F|merge,rot")
open_("C10", ["C10|post-recovery-*|*|S/*|*"],
      SP + "a database recovered from a crash image cannot always be written to: Put panics (nil active tree after an interrupted rotation) or the recovered bucket metadata / index files miss committed keys")
open_("C16", ["C16|recovered-state|Z*|KV/*|*", "C16|post-recovery-state|Z*|KV/*|*"],
      "Merge is not crash safe for sorted-set members that were re-scored: the older ZAdd record is rewritten into a NEW (higher-numbered) file as long as the member exists, so after a crash between the rewrite of the old file and the rewrite of the file holding the newer score, replay order makes the old score win")
fixed("C20", "dacbf07", "sparse mode: Commit panicked (nil tree root) when it rotated a segment that holds no committed key/value entry (only list/set/zset records, or records of a crashed transaction)", "C20|panic|panic:ZAdd;Close;Open[S]:commit|*|")
json.dump({"findings": F}, open(os.path.join(root, "known_findings.json"), "w"), indent=1)
print(len(F), "entries")
