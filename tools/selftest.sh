#!/bin/bash
# ./tools/selftest.sh [mNN ...]   applies each mutant patch to a scratch copy of /repo under /dev/shm,
# checks that the repository's own tests still pass (the mutant is "realistic"), runs the mapped quick
# checks with REPO=<copy> and requires exit 1 with a VIOLATION line.  The scratch copy is removed.
export GOFLAGS=-mod=mod GOPROXY=off GOSUMDB=off GOTOOLCHAIN=local
ROOT="$(cd "$(dirname "$0")/.." && pwd)"
SRC="${SRC:-/repo}"
ids="$@"
[ -z "$ids" ] && ids=$(python3 -c "import json;print(' '.join(m['id'] for m in json.load(open('$ROOT/mutants/mutants.json'))))")
res="$ROOT/mutants/selftest_results.txt"
for id in $ids; do
  W=/dev/shm/selftest-$id-$$
  rm -rf "$W"; git -C "$SRC" worktree add -q --detach "$W" HEAD || exit 2
  if ! git -C "$W" apply "$ROOT/mutants/$id.patch"; then echo "$id: PATCH DOES NOT APPLY"; git -C "$SRC" worktree remove --force "$W"; continue; fi
  (cd "$W" && go build ./... ) >/dev/null 2>&1 || { echo "$id: DOES NOT COMPILE"; git -C "$SRC" worktree remove --force "$W"; continue; }
  base=$(cd "$W" && go test -vet=off -count=1 ./... 2>&1 | grep -c "^FAIL")
  expect=$(python3 -c "import json;print(' '.join([m for m in json.load(open('$ROOT/mutants/mutants.json')) if m['id']=='$id'][0]['expect']))")
  line="$id baseline_fail=$base"
  for c in $expect; do
    out=$(cd "$ROOT" && REPO="$W" VERIF_EVIDENCE_DIR=/dev/shm/selftest-evidence-$$ VERIF_BUDGET_S=${BUDGET:-240} ./run check $c --tier quick 2>&1); code=$?
    nv=$(echo "$out" | grep -c "^VIOLATION property=$c")
    line="$line | $c exit=$code violations=$nv"
  done
  echo "$line" | tee -a "$res"
  git -C "$SRC" worktree remove --force "$W"
  rm -rf /dev/shm/selftest-evidence-$$
done
