package checks

import (
	"fmt"

	"verif/mc/eng"
)

func init() {
	// E3 counterexamples: the harness is run once with the recorded schedule (no exploration).
	replayHandlers["sched"] = func(rp eng.Replay) int {
		v := rp.Violation
		name, _ := v.Extra["harness"].(string)
		mk := harnesses[name]
		if mk == nil {
			fmt.Printf("unknown harness %q\n", name)
			return 2
		}
		var prefix []int
		if raw, ok := v.Extra["schedule"].([]interface{}); ok {
			for _, x := range raw {
				if f, ok := x.(float64); ok {
					prefix = append(prefix, int(f))
				}
			}
		}
		h := mk()
		fmt.Printf("replay: harness %s on %s, schedule %v\n", name, h.cfg, prefix)
		found := 0
		var out schedOut
		for i := 0; i < 2; i++ { // twice: the same schedule must give the same verdict
			ex := runHarness(h, prefix)
			if ex.s.Diverged != "" {
				fmt.Println("replay diverged:", ex.s.Diverged)
				ex.discard()
				return 2
			}
			outcome := judgeExec(h, ex, v.Prop, func(prop, kind, what string, s *eng.Sched, detail ...string) {
				found++
				fmt.Printf("reproduced (run %d): property=%s kind=%s what=%s\n", i+1, prop, kind, what)
				for _, d := range detail {
					fmt.Println("  ", d)
				}
			}, &out)
			for _, r := range ex.recs {
				fmt.Printf("   %s [%d,%d] err=%q calls=%v results=%v\n", r.Thread, r.Call, r.Ret, r.Err, r.Calls, r.Results)
			}
			fmt.Println("   outcome:", outcome)
			ex.discard()
		}
		if found > 0 {
			return 1
		}
		fmt.Println("replay: no violation reproduced")
		return 0
	}
	note := func(what string) func(rp eng.Replay) int {
		return func(rp eng.Replay) int {
			for _, d := range rp.Violation.Detail {
				fmt.Println("  ", d)
			}
			fmt.Println("this counterexample is a single deterministic case of " + what + "; it is re-checked by re-running the check (./run check " + rp.Violation.Prop + ")")
			return 0
		}
	}
	replayHandlers["struct"] = note("the structure-level exploration (state, call)")
	replayHandlers["codec"] = note("the codec enumeration (record, corruption)")
	replayHandlers["wide"] = note("the B+ tree wide tier (insertion order)")
	replayHandlers["race"] = note("the free-running race-detector pass (sampling)")
	replayHandlers["dblevel"] = note("the DB-level degenerate-argument cases")
	replayHandlers["c22"] = note("the directory-state x mode table")
}
