package checks

import (
	"os"
	"path/filepath"

	"verif/mc/core"
	"verif/mc/eng"
)

// kvOps builds the KV alphabet of C01: per (bucket,key) two puts with different values, a put
// that is live now and expired after one tick, a put exactly at the expiry boundary, a put
// whose timestamp lies ahead of the clock, a delete;
// tick, reopen and four two-call transactions.
func kvOps(buckets, keys []string, multi bool) []core.Op {
	var ops []core.Op
	up := func(calls ...core.Call) core.Op { return core.Op{Kind: "update", Calls: calls} }
	for _, b := range buckets {
		for _, k := range keys {
			ops = append(ops,
				up(core.Call{F: "Put", B: b, K: k, V: ""}),
				up(core.Call{F: "Put", B: b, K: k, V: "x"}),
				up(core.Call{F: "PutTS", B: b, K: k, V: "t", TTL: 5, TS: -4}),
				up(core.Call{F: "PutTS", B: b, K: k, V: "e", TTL: 5, TS: -5}),
				up(core.Call{F: "PutTS", B: b, K: k, V: "f", TTL: 2, TS: 3}), // timestamp ahead of the clock: live until now+5
				up(core.Call{F: "Delete", B: b, K: k}),
			)
		}
	}
	ops = append(ops, core.Op{Kind: "tick"}, core.Op{Kind: "reopen"})
	if multi {
		b0, b1 := buckets[0], buckets[len(buckets)-1]
		k0, k1 := keys[0], keys[len(keys)-1]
		ops = append(ops,
			up(core.Call{F: "Put", B: b0, K: k0, V: "m"}, core.Call{F: "Put", B: b1, K: k1, V: "n"}),
			up(core.Call{F: "Put", B: b0, K: k0, V: "m"}, core.Call{F: "Delete", B: b0, K: k0}),
			up(core.Call{F: "Delete", B: b0, K: k0}, core.Call{F: "Put", B: b0, K: k0, V: "r"}),
			up(core.Call{F: "Put", B: b0, K: k1, V: "p"}, core.Call{F: "Put", B: b0, K: k1, V: "q"}),
		)
	}
	return ops
}

// kvObs builds the read queries of C01/C02 for the given buckets.
func kvObs(buckets, keys, bounds, prefixes []string, search bool) []core.Call {
	var qs []core.Call
	for _, b := range buckets {
		for _, k := range keys {
			qs = append(qs, core.Call{F: "Get", B: b, K: k})
		}
		qs = append(qs, core.Call{F: "GetAll", B: b})
		for _, s := range bounds {
			for _, e := range bounds {
				qs = append(qs, core.Call{F: "RangeScan", B: b, K: s, K2: e})
			}
		}
		for _, p := range prefixes {
			qs = append(qs, core.Call{F: "PrefixScan", B: b, K: p, I: 0, J: -1})
			qs = append(qs, core.Call{F: "PrefixScan", B: b, K: p, I: 0, J: 1000})
			if search {
				for _, re := range []string{".*", "b$", "^$"} {
					qs = append(qs, core.Call{F: "PrefixSearchScan", B: b, K: p, Re: re, I: 0, J: -1})
				}
			}
		}
	}
	return qs
}

// dirFeatures counts rotation and similar facts from the database directory.
func dirFeatures(c *eng.Ctx) {
	if m, _ := filepath.Glob(filepath.Join(c.Inst.Dir, "*.dat")); len(m) > 1 {
		c.Feature("rotated")
	}
	if st, err := os.Stat(filepath.Join(c.Inst.Dir, "0.dat")); err == nil && st.Size() > 0 {
		recs := 0
		_ = recs
	}
	for _, o := range c.Ops {
		switch o.Kind {
		case "tick":
			c.Feature("tick")
		case "reopen":
			c.Feature("reopen")
		}
		for _, cl := range o.Calls {
			if cl.F == "Delete" {
				c.Feature("delete")
			}
			if cl.TTL > 0 {
				c.Feature("ttl")
			}
		}
	}
}

func c01Profile(tier string) *eng.Profile {
	buckets := []string{"a", "ab"}
	keys := []string{"a", "ab", "b"}
	p := &eng.Profile{ID: "C01", Name: "kv",
		Cfgs: append(cfgs([]int{core.KV, core.K}, []int{core.F, core.M}, []int64{100, 88}),
			// larger records: 300-byte values, two per segment
			core.Cfg{Mode: core.KV, Seg: 700}, core.Cfg{Mode: core.K, RW: core.M, Start: core.M, Seg: 700}),
		Ops: func(cfg core.Cfg) []core.Op {
			if cfg.Seg >= 700 {
				o := kvOps([]string{"a"}, []string{"a", "ab"}, true)
				return append(o, up(core.Call{F: "Put", B: "a", K: "a", Big: 300}), up(core.Call{F: "Put", B: "a", K: "ab", Big: 299}),
					up(core.Call{F: "Put", B: "a", K: "b", Big: 300}, core.Call{F: "Put", B: "a", K: "a", V: "s"}))
			}
			return kvOps(buckets, keys, true)
		},
		Obs: func(core.Cfg) []core.Call {
			return kvObs([]string{"a", "ab", "zz"}, []string{"a", "ab", "b", "zz"},
				[]string{"", "a", "aa", "ab", "ac", "b", "c"}, []string{"", "a", "ab", "b", "c"}, true)
		},
		Depth: 3,
		Judge: func(c *eng.Ctx) { dirFeatures(c); eng.JudgeModel(c, "C01") },
	}
	// reads in key-only mode map the data file once per returned record, which under MMap costs
	// ~45 ms per history: that configuration is explored one level less deep
	p.DepthFor = func(c core.Cfg) int {
		d := 3
		if tier == "thorough" {
			d = 4
		}
		if c.Mode == core.K && c.RW == core.M && c.Seg < 700 {
			d--
		}
		return d
	}
	return p
}

// escAll marks every call of the ops / queries as Go-escaped (core.Call.Esc).
func escOps(ops []core.Op) []core.Op {
	out := make([]core.Op, len(ops))
	for i, o := range ops {
		o.Calls = escCalls(o.Calls)
		out[i] = o
	}
	return out
}

func escCalls(cs []core.Call) []core.Call {
	out := make([]core.Call, len(cs))
	for i, c := range cs {
		c.Esc = true
		out[i] = c
	}
	return out
}

// c01BytesProfile: the KV alphabet over keys made of the extreme byte values (a NUL key, keys
// ending in 0xff), with scan bounds and prefixes of the same kind; also run in sparse mode for C02.
func c01BytesProfile(tier, id string) *eng.Profile {
	keys := []string{`\x00`, `a\xff`, `\xff`}
	cf := []core.Cfg{{Mode: core.KV, Seg: 100}, {Mode: core.K, Seg: 100}, {Mode: core.KV, RW: core.M, Start: core.M, Seg: 100}}
	if id == "C02" {
		cf = []core.Cfg{{Mode: core.S, Seg: 100}, {Mode: core.S, RW: core.M, Start: core.M, Seg: 150}}
	}
	ops := escOps(kvOps([]string{"b"}, keys, true))
	qs := escCalls(kvObs([]string{"b"}, append(append([]string(nil), keys...), `a`, `\xff\xff`),
		[]string{``, `\x00`, `\x00\x00`, `a`, `a\xff`, `b`, `\xff`, `\xff\xff`}, []string{``, `\x00`, `a`, `a\xff`, `\xff`}, id == "C01"))
	p := &eng.Profile{ID: id, Name: "kv-bytes", Cfgs: cf,
		Ops:   func(core.Cfg) []core.Op { return ops },
		Obs:   func(core.Cfg) []core.Call { return qs },
		Depth: 2,
		Judge: func(c *eng.Ctx) { dirFeatures(c); eng.JudgeModel(c, id) },
	}
	if tier == "thorough" {
		p.Depth = 3
	}
	return p
}

func init() {
	profileBuilders = append(profileBuilders, func(tier string) {
		Register(c01Profile(tier))
		Register(c01BytesProfile(tier, "C01"))
		Register(c01BytesProfile(tier, "C02"))
	})
	Registry["C01"] = func(r *Run) {
		r.Rule = "every sequence of <=depth ops over the KV alphabet (2 buckets x 3 keys x {put '',put x,put live-TTL,put expired-TTL,delete}, tick, reopen, 4 two-call transactions) in every configuration (and, one level less deep, over keys, bounds and prefixes made of the extreme byte values \\x00, a\\xff, \\xff); after each history every Get/GetAll/RangeScan/PrefixScan/PrefixSearchScan of the observation grid is compared with the ordered-map+TTL model; wide tier on the exported BPTree: every insertion order of 8 (thorough 9) keys with a tombstone re-insertion, and monotone fills of 24..40 (thorough 16..64) keys followed by every sequence of <=2 insertions into every gap (inner-node splits), with Find/All/Range/PrefixScan and structural invariants after every insertion; distinct = distinct canonical states; non-trivial = model states in which some read returns data and some read fails"
		r.Assume = []string{"key/value/bucket bytes outside the alphabet are not covered", "virtual clock: seconds advance only by tick ops"}
		r.Required = []string{"rotated", "tick", "reopen", "delete", "ttl"}
		r.Explore(c01Profile(r.Tier))
		r.Explore(c01BytesProfile(r.Tier, "C01"))
		runWide(r)
		runKVLong(r, "C01", []core.Cfg{{Mode: core.K, Seg: 392}, {Mode: core.KV, RW: core.M, Start: core.M, Seg: 392}})
		runValues(r, "C01", false, []int{core.KV, core.K})
	}
}
