package checks

import (
	"verif/mc/core"
	"verif/mc/eng"
)

func c12FaultProfile(tier string) *eng.Profile {
	ops := func(cfg core.Cfg) []core.Op {
		o := []core.Op{
			up(core.Call{F: "Put", B: bKV, K: "a", V: "x"}),
			up(core.Call{F: "Put", B: bKV, K: "ab", V: "y"}),
			up(core.Call{F: "Delete", B: bKV, K: "a"}),
			up(core.Call{F: "Put", B: bKV, K: "a", V: "m1"}, core.Call{F: "Put", B: bKV, K: "ab", V: "m2"}, core.Call{F: "Put", B: bKV, K: "c", V: "m3"}),
		}
		if cfg.Mode == core.KV {
			o = append(o,
				up(core.Call{F: "RPush", B: bL, K: "k", Vs: []string{"a", "b"}}),
				up(core.Call{F: "SAdd", B: bS, K: "k", Vs: []string{"m", "n"}}),
				up(core.Call{F: "ZAdd", B: bZ, K: "a", X: 1, V: "va"}, core.Call{F: "Put", B: bKV, K: "c", V: "z"}),
			)
		}
		return o
	}
	p := &eng.Profile{ID: "C12", Name: "faults",
		Cfgs: []core.Cfg{{Mode: core.KV, Seg: 100}, {Mode: core.KV, Sync: true, Seg: 100}, {Mode: core.KV, RW: core.M, Start: core.M, Sync: true, Seg: 100},
			{Mode: core.K, Sync: true, Seg: 100}, {Mode: core.S, Sync: true, Seg: 100}},
		Ops: ops, Obs: mixedObsFor, Depth: 2}
	p.Run = func(p *eng.Profile, cfg core.Cfg, hist []core.Op, leaf *eng.Leaf) {
		eng.FaultLeaf(p, cfg, hist, leaf, "C12")
	}
	if tier == "thorough" {
		p.Depth = 3
	}
	return p
}

func init() {
	profileBuilders = append(profileBuilders, func(tier string) {
		Register(c12FaultProfile(tier))
		mixed := c10Profile(tier)
		mixed.Name = "crash-startmode"
		mixed.Cfgs = nil
		for _, m := range []int{core.KV, core.K, core.S} {
			mixed.Cfgs = append(mixed.Cfgs, core.Cfg{Mode: m, RW: core.F, Start: core.M, Seg: 100}, core.Cfg{Mode: m, RW: core.M, Start: core.F, Seg: 100})
		}
		Register(mixed)
	})
	c12FaultPart = func(r *Run) { r.Explore(c12FaultProfile(r.Tier), "C12") }
	c09CrashPart = func(r *Run) {
		// every process-crash image of C10's and C16's workloads must open: the same enumeration,
		// judged on the error returned by Open only
		onlyOpen := func(v eng.Violation) bool {
			return v.Kind == "open-error" || v.Kind == "second-open-error" || v.Kind == "post-recovery-open-error"
		}
		r.ExploreFiltered(c10Profile(r.Tier), onlyOpen, "C10")
		r.ExploreFiltered(c16Profile(r.Tier), onlyOpen, "C16")
		// the same crash images recovered with a StartFileLoadingMode different from the RWMode
		mixed := c10Profile(r.Tier)
		mixed.Name = "crash-startmode"
		mixed.Cfgs = nil
		for _, m := range []int{core.KV, core.K, core.S} {
			mixed.Cfgs = append(mixed.Cfgs, core.Cfg{Mode: m, RW: core.F, Start: core.M, Seg: 100}, core.Cfg{Mode: m, RW: core.M, Start: core.F, Seg: 100})
		}
		r.ExploreFiltered(mixed, onlyOpen, "C10")
	}
}
