package checks

import (
	"encoding/json"
	"fmt"

	"verif/mc/core"
	"verif/mc/eng"
)

// Long deterministic KV families (C02, also run in key-only mode for C01's sake): many single-put
// transactions per segment (so that the on-disk key tree AND the committed-transaction-id tree of
// a sealed segment get inner nodes), in several key orders, with overwrites and deletes in later
// segments; after every step Get of every key, GetAll, RangeScan and PrefixScan vs the model;
// reopen at the end and once in the middle.

type kvLongJob struct {
	Mode  int    `json:"mode"`
	RW    int    `json:"rw"`
	Seg   int64  `json:"seg"`
	Shard int    `json:"shard"`
	Of    int    `json:"of"`
	Big   bool   `json:"big"`
	Prop  string `json:"prop"`
}

func kvLongHistory(n int, order string, every int) []core.Op {
	idx := make([]int, n)
	for i := range idx {
		switch order {
		case "asc":
			idx[i] = i
		case "desc":
			idx[i] = n - 1 - i
		default: // zig-zag
			if i%2 == 0 {
				idx[i] = i / 2
			} else {
				idx[i] = n - 1 - i/2
			}
		}
	}
	key := func(i int) string { return fmt.Sprintf("k%02d", i) }
	var ops []core.Op
	for _, i := range idx {
		ops = append(ops, up(core.Call{F: "Put", B: "b", K: key(i), V: fmt.Sprintf("v%02d", i)}))
	}
	ops = append(ops, core.Op{Kind: "reopen"})
	// later segments: overwrite every every-th key, delete the one after it
	if every > 0 {
		for i := 0; i < n; i += every {
			ops = append(ops, up(core.Call{F: "Put", B: "b", K: key(i), V: "w"}))
			if i+1 < n {
				ops = append(ops, up(core.Call{F: "Delete", B: "b", K: key(i + 1)}))
			}
		}
	}
	ops = append(ops, core.Op{Kind: "reopen"})
	return ops
}

func kvLongWorker(arg json.RawMessage) interface{} {
	var j kvLongJob
	json.Unmarshal(arg, &j)
	out := &longOut{}
	cfg := core.Cfg{Mode: j.Mode, RW: j.RW, Start: j.RW, Seg: j.Seg}
	seen := map[string]bool{}
	nMax := 14
	if j.Big {
		nMax = 24
	}
	idx := 0
	for n := 6; n <= nMax; n++ {
		var queries []core.Call
		for i := 0; i < n; i++ {
			queries = append(queries, core.Call{F: "Get", B: "b", K: fmt.Sprintf("k%02d", i)})
		}
		queries = append(queries, core.Call{F: "GetAll", B: "b"}, core.Call{F: "RangeScan", B: "b", K: "", K2: "z"}, core.Call{F: "RangeScan", B: "b", K: "k03", K2: "k07"},
			core.Call{F: "PrefixScan", B: "b", K: "k0", I: 0, J: 100}, core.Call{F: "PrefixScan", B: "b", K: "k", I: 0, J: 100})
		for _, order := range []string{"asc", "desc", "zig"} {
			for _, every := range []int{0, 2, 3, 4} {
				idx++
				if idx%j.Of != j.Shard {
					continue
				}
				ops := kvLongHistory(n, order, every)
				out.Histories++
				in := core.OpenInst(cfg)
				for si, op := range ops {
					r := in.Apply(op)
					out.Steps++
					add := func(kind string, bad []core.Mismatch, detail string) {
						v := eng.Violation{Prop: j.Prop, Kind: kind, Cfg: cfg, Ops: ops[:si+1], Tags: []string{"long"}, Extra: map[string]interface{}{"profile": "long"}}
						for _, mm := range bad {
							v.Atoms = append(v.Atoms, mm.Atom())
							v.Detail = append(v.Detail, mm.String())
						}
						if len(v.Atoms) == 0 {
							v.Atoms = []string{kind}
						}
						v.Atoms = uniq(v.Atoms)
						v.What = v.Atoms[0]
						v.Detail = append([]string{fmt.Sprintf("family n=%d order=%s overwrite-every=%d seg=%d, step %d %s: %s", n, order, every, j.Seg, si+1, op, detail)}, v.Detail...)
						if k := kind + v.What; !seen[k] {
							seen[k] = true
							out.Viol = append(out.Viol, v)
						}
					}
					if r.Panic != "" {
						add("panic", nil, r.Panic)
						break
					}
					if op.Kind == "reopen" && r.Err {
						add("open-error", nil, r.Msg)
						break
					}
					if len(r.Bad) > 0 || len(r.Notes) > 0 {
						add("call-result", r.Bad, fmt.Sprint(r.Notes))
						break
					}
					obs, err := in.Observe(queries)
					if err != nil {
						add("obs-failed", nil, err.Error())
						break
					}
					out.Evals += len(obs)
					if bad := core.CheckObs(in.Model, queries, obs); len(bad) > 0 {
						add("obs-mismatch", bad, "observation vs model")
						break
					}
				}
				if files, _ := filepathGlob(in.Dir + "/*.dat"); len(files) > out.MaxFiles {
					out.MaxFiles = len(files)
				}
				in.Discard()
				if out.Sample == "" {
					out.Sample = fmt.Sprintf("%s: n=%d order=%s overwrite-every=%d: %d steps", cfg, n, order, every, len(ops))
				}
			}
		}
	}
	return out
}

// runKVLong runs the long KV families for a property in the given configurations.
func runKVLong(r *Run, prop string, cfgs []core.Cfg) {
	var args []interface{}
	shards := 3
	for _, c := range cfgs {
		for s := 0; s < shards; s++ {
			args = append(args, kvLongJob{Mode: c.Mode, RW: c.RW, Seg: c.Seg, Shard: s, Of: shards, Big: r.Tier == "thorough", Prop: prop})
		}
	}
	r.Pool.ParallelCustom("kvlong", args, func(i int, raw json.RawMessage, okk bool) {
		var o longOut
		if !okk || json.Unmarshal(raw, &o) != nil {
			r.Col.Add(eng.Violation{Prop: prop, Kind: "hang", What: "long:worker-died", Atoms: []string{"long:worker-died"}, Detail: []string{fmt.Sprintf("long-history job %+v hung or killed its worker", args[i])}, Extra: map[string]interface{}{"profile": "long"}})
			return
		}
		r.Stats.Transitions += o.Steps
		r.Stats.Evals += o.Evals
		r.Stats.Extra["long_histories"] += o.Histories
		r.Stats.Extra["long_history_steps"] += o.Steps
		if o.MaxFiles > r.Stats.Extra["long_max_segment_files"] {
			r.Stats.Extra["long_max_segment_files"] = o.MaxFiles
		}
		for k := 0; k < o.Histories; k++ {
			r.Stats.States[fmt.Sprintf("kvlong%d/%d", i, k)] = true
		}
		if o.Sample != "" && len(r.Stats.Samples) < 10 {
			r.Stats.Samples = append(r.Stats.Samples, "long KV family "+o.Sample)
		}
		for _, v := range o.Viol {
			r.Col.Add(v)
		}
	})
}

func init() { customHandlers["kvlong"] = kvLongWorker }
