package checks

import (
	"encoding/json"
	"fmt"

	"verif/mc/core"
	"verif/mc/eng"
)

// Long deterministic families for Merge (C15): histories far beyond the BFS depth, enumerated over
// a parameter grid (exhaustive over the grid, not sampled): n puts cycling over k keys with a
// delete every d-th write and an expiring put every e-th, Merge, m more writes, Merge again, tick,
// reopen; after EVERY step the full observation is compared with the model, and across every
// Merge with the observation before it.

type longJob struct {
	Mode  int   `json:"mode"`
	RW    int   `json:"rw"`
	Shard int   `json:"shard"`
	Of    int   `json:"of"`
	Big   bool  `json:"big"`
	Seg   int64 `json:"seg"` // 0 = 100
}

type longOut struct {
	Histories int             `json:"histories"`
	Steps     int             `json:"steps"`
	Merges    int             `json:"merges"`
	MergeOK   int             `json:"merge_ok"`
	MaxFiles  int             `json:"max_files"`
	Evals     int             `json:"evals"`
	Viol      []eng.Violation `json:"viol"`
	Sample    string          `json:"sample"`
}

func longHistory(n, k, d, e, m int) []core.Op {
	var ops []core.Op
	key := func(i int) string { return string(rune('a' + i%k)) }
	write := func(i int) core.Op {
		switch {
		case d > 0 && i%d == d-1:
			return up(core.Call{F: "Delete", B: bKV, K: key(i)})
		case e > 0 && i%e == e-1:
			return up(core.Call{F: "PutTS", B: bKV, K: key(i), V: fmt.Sprintf("t%d", i), TTL: 5, TS: -4})
		}
		return up(core.Call{F: "Put", B: bKV, K: key(i), V: fmt.Sprintf("v%d", i)})
	}
	for i := 0; i < n; i++ {
		ops = append(ops, write(i))
	}
	ops = append(ops, core.Op{Kind: "merge"})
	for i := n; i < n+m; i++ {
		ops = append(ops, write(i))
	}
	ops = append(ops, core.Op{Kind: "merge"}, core.Op{Kind: "tick"}, core.Op{Kind: "reopen"}, write(n+m), core.Op{Kind: "merge"}, core.Op{Kind: "reopen"})
	return ops
}

func longWorker(arg json.RawMessage) interface{} {
	var j longJob
	json.Unmarshal(arg, &j)
	out := &longOut{}
	cfg := core.Cfg{Mode: j.Mode, RW: j.RW, Start: j.RW, Seg: 100}
	if j.Seg > 0 {
		cfg.Seg = j.Seg
	}
	queries := mixedObsFor(core.Cfg{Mode: core.K}) // KV queries
	seen := map[string]bool{}
	idx := 0
	nMax, kMax := 9, 3
	if j.Big {
		nMax, kMax = 13, 4
	}
	for n := 2; n <= nMax; n++ {
		for k := 1; k <= kMax; k++ {
			for _, d := range []int{0, 2, 3, 5} {
				for _, e := range []int{0, 3, 4} {
					for _, m := range []int{0, 1, 3} {
						idx++
						if idx%j.Of != j.Shard {
							continue
						}
						ops := longHistory(n, k, d, e, m)
						out.Histories++
						in := core.OpenInst(cfg)
						var prev []core.Res
						for si, op := range ops {
							if op.Kind == "merge" {
								prev, _ = in.Observe(queries)
							}
							r := in.Apply(op)
							out.Steps++
							add := func(kind string, bad []core.Mismatch, detail string) {
								v := eng.Violation{Prop: "C15", Kind: kind, Cfg: cfg, Ops: ops[:si+1], Tags: []string{"long"}, Extra: map[string]interface{}{"profile": "long"}}
								for _, mm := range bad {
									v.Atoms = append(v.Atoms, mm.Atom())
									v.Detail = append(v.Detail, mm.String())
								}
								if len(v.Atoms) == 0 {
									v.Atoms = []string{kind}
								}
								v.Atoms = uniq(v.Atoms)
								v.What = v.Atoms[0]
								v.Detail = append([]string{fmt.Sprintf("family n=%d k=%d delete-every=%d expiring-every=%d m=%d, step %d %s: %s", n, k, d, e, m, si+1, op, detail)}, v.Detail...)
								key := kind + v.What
								if !seen[key] {
									seen[key] = true
									out.Viol = append(out.Viol, v)
								}
							}
							if r.Panic != "" {
								add("panic", nil, r.Panic)
								break
							}
							if op.Kind == "reopen" && r.Err {
								add("open-error-after-merge", nil, r.Msg)
								break
							}
							if op.Kind == "merge" {
								out.Merges++
								if !r.Err {
									out.MergeOK++
								}
							}
							if len(r.Bad) > 0 || len(r.Notes) > 0 {
								add("call-result", r.Bad, fmt.Sprint(r.Notes))
								break
							}
							obs, err := in.Observe(queries)
							if err != nil {
								add("obs-failed", nil, err.Error())
								break
							}
							out.Evals += len(obs)
							if op.Kind == "merge" {
								if dd := core.DiffObs(queries, prev, obs); len(dd) > 0 {
									add("merge-changed-reads", dd, "observation before vs after Merge")
									break
								}
							}
							if bad := core.CheckObs(in.Model, queries, obs); len(bad) > 0 {
								add("obs-mismatch", bad, "observation vs model")
								break
							}
						}
						if files, _ := filepathGlob(in.Dir + "/*.dat"); len(files) > out.MaxFiles {
							out.MaxFiles = len(files)
						}
						in.Discard()
						if out.Sample == "" {
							var parts []string
							for _, o := range ops {
								parts = append(parts, o.String())
							}
							out.Sample = fmt.Sprintf("%s: %d steps, e.g. n=%d k=%d d=%d e=%d m=%d: %v", cfg, len(ops), n, k, d, e, m, parts)
						}
					}
				}
			}
		}
	}
	return out
}

func runLong(r *Run) {
	var args []interface{}
	shards := 4
	for _, mr := range [][2]int{{core.KV, core.F}, {core.K, core.F}, {core.KV, core.M}, {core.K, core.M}} {
		for s := 0; s < shards; s++ {
			args = append(args, longJob{Mode: mr[0], RW: mr[1], Shard: s, Of: shards, Big: r.Tier == "thorough"})
		}
	}
	// segment size 94: two 47-byte records fill a segment EXACTLY (Commit rotates on >, so the last
	// record of such a segment ends at the boundary)
	for _, mr := range [][2]int{{core.KV, core.F}, {core.K, core.M}} {
		for s := 0; s < shards; s++ {
			args = append(args, longJob{Mode: mr[0], RW: mr[1], Shard: s, Of: shards, Big: r.Tier == "thorough", Seg: 94})
		}
	}
	merges, ok := 0, 0
	r.Pool.ParallelCustom("long", args, func(i int, raw json.RawMessage, okk bool) {
		var o longOut
		if !okk || json.Unmarshal(raw, &o) != nil {
			r.Col.Add(eng.Violation{Prop: "C15", Kind: "hang", What: "long:worker-died", Atoms: []string{"long:worker-died"}, Detail: []string{fmt.Sprintf("long-history job %+v hung or killed its worker", args[i])}, Extra: map[string]interface{}{"profile": "long"}})
			return
		}
		merges += o.Merges
		ok += o.MergeOK
		r.Stats.Transitions += o.Steps
		r.Stats.Evals += o.Evals
		r.Stats.Extra["long_histories"] += o.Histories
		r.Stats.Extra["long_history_steps"] += o.Steps
		if o.MaxFiles > r.Stats.Extra["long_max_segment_files"] {
			r.Stats.Extra["long_max_segment_files"] = o.MaxFiles
		}
		for k := 0; k < o.Histories; k++ {
			r.Stats.States[fmt.Sprintf("long%d/%d", i, k)] = true
		}
		if o.Sample != "" && len(r.Stats.Samples) < 8 {
			r.Stats.Samples = append(r.Stats.Samples, "long family "+o.Sample)
		}
		for _, v := range o.Viol {
			r.Col.Add(v)
		}
	})
	r.Extra["long_family_merges"] = fmt.Sprintf("%d Merge calls, %d returned nil", merges, ok)
}

func init() { customHandlers["long"] = longWorker }
