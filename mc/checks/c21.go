package checks

import (
	"bytes"
	"encoding/json"
	"fmt"
	"io/ioutil"
	"os"
	"path/filepath"
	"strings"
	"sync"

	"github.com/xujiajun/nutsdb"
	vos "github.com/xujiajun/nutsdb/verifshim/vos"

	"verif/mc/core"
	"verif/mc/eng"
)

// E4: codec enumerator.  Field grid -> real encoder -> every single-bit flip and every truncation
// of the stored bytes -> real decoder -> "error, or absent, or field-for-field what was written".

type codecJob struct {
	Kind  string `json:"kind"` // entry | rootidx | bucketmeta
	RW    int    `json:"rw"`
	Shard int    `json:"shard"`
	Of    int    `json:"of"`
	Big   bool   `json:"big"`
}

type codecOut struct {
	Records              int             `json:"records"`
	Decodes              int             `json:"decodes"`
	Flips                int             `json:"flips"`
	Truncations          int             `json:"truncations"`
	Rejected             int             `json:"rejected"`
	Absent               int             `json:"absent"`
	Viol                 []eng.Violation `json:"viol"`
	Sample               string          `json:"sample"`
	SkippedHighSizeFlips int             `json:"skipped_high_size_flips"`
}

func fill(n int, seed byte) []byte {
	b := make([]byte, n)
	for i := range b {
		b[i] = 'a' + (seed+byte(i))%26
	}
	return b
}

type entrySpec struct {
	key, val, bucket []byte
	f                nutsdb.VerifMetaFields
}

func entryGrid(big bool) []entrySpec {
	lens := []int{0, 1, 2, 17}
	vlens := []int{0, 1, 2, 17, 300}
	ts := []uint64{0, 1, 1 << 63, ^uint64(0)}
	ttls := []uint32{0, 1, ^uint32(0)}
	txs := []uint64{0, 1, 1 << 63, ^uint64(0)}
	if !big {
		lens = []int{0, 1, 17}
		vlens = []int{0, 2, 300}
		ts = []uint64{0, 1, ^uint64(0)}
		txs = []uint64{1, ^uint64(0)}
		ttls = []uint32{0, ^uint32(0)}
	}
	var out []entrySpec
	i := 0
	for _, kl := range lens {
		for _, vl := range vlens {
			for _, bl := range lens {
				// the 14 flags x 2 statuses x 4 structure codes are spread over the length grid
				// (every value of each appears; the full cross product is in the thorough tier)
				flags := []uint16{uint16(i % 14)}
				statuses := []uint16{uint16(i % 2)}
				dss := []uint16{uint16(i % 4)}
				if big {
					flags = []uint16{uint16(i % 14), uint16((i + 7) % 14)}
					statuses = []uint16{0, 1}
				}
				for _, fl := range flags {
					for _, st := range statuses {
						for _, ds := range dss {
							out = append(out, entrySpec{key: fill(kl, 1), val: fill(vl, 5), bucket: fill(bl, 9),
								f: nutsdb.VerifMetaFields{KeySize: uint32(kl), ValueSize: uint32(vl), BucketSize: uint32(bl), Timestamp: ts[i%len(ts)],
									TTL: ttls[i%len(ttls)], Flag: fl, Status: st, Ds: ds, TxID: txs[i%len(txs)], Bucket: fill(bl, 9)}})
						}
					}
				}
				i++
			}
		}
	}
	// every flag / status / ds / extreme value at least once on a fixed shape
	for fl := uint16(0); fl < 14; fl++ {
		for st := uint16(0); st < 2; st++ {
			for ds := uint16(0); ds < 4; ds++ {
				if !big && (st != fl%2 || ds != fl%4) {
					continue // quick tier: every flag, status and structure code once
				}
				out = append(out, entrySpec{key: []byte("k"), val: []byte("v"), bucket: []byte("b"),
					f: nutsdb.VerifMetaFields{KeySize: 1, ValueSize: 1, BucketSize: 1, Timestamp: ts[int(fl)%len(ts)], TTL: ttls[int(ds)%len(ttls)], Flag: fl, Status: st, Ds: ds, TxID: txs[int(fl+ds)%len(txs)], Bucket: []byte("b")}})
			}
		}
	}
	return out
}

func sameEntry(e *nutsdb.Entry, sp entrySpec) string {
	if e == nil {
		return "nil entry"
	}
	m := nutsdb.VerifMeta(e)
	w := sp.f
	switch {
	case !bytes.Equal(e.Key, sp.key):
		return fmt.Sprintf("key %q != %q", e.Key, sp.key)
	case !bytes.Equal(e.Value, sp.val):
		return fmt.Sprintf("value differs (%d vs %d bytes)", len(e.Value), len(sp.val))
	case !bytes.Equal(m.Bucket, sp.bucket):
		return fmt.Sprintf("bucket %q != %q", m.Bucket, sp.bucket)
	case m.KeySize != w.KeySize || m.ValueSize != w.ValueSize || m.BucketSize != w.BucketSize:
		return "sizes differ"
	case m.Timestamp != w.Timestamp:
		return "timestamp differs"
	case m.TTL != w.TTL:
		return "ttl differs"
	case m.Flag != w.Flag:
		return "flag differs"
	case m.Status != w.Status:
		return "status differs"
	case m.Ds != w.Ds:
		return "ds differs"
	case m.TxID != w.TxID:
		return "txid differs"
	}
	return ""
}

func codecWorker(arg json.RawMessage) interface{} {
	var j codecJob
	json.Unmarshal(arg, &j)
	out := &codecOut{}
	dir := core.NewDir()
	os.MkdirAll(dir, 0755)
	defer os.RemoveAll(dir)
	seen := map[string]bool{}
	addV := func(kind, what string, detail ...string) {
		if seen[kind+what] {
			return
		}
		seen[kind+what] = true
		out.Viol = append(out.Viol, eng.Violation{Prop: "C21", Kind: kind, What: what, Atoms: []string{what}, Cfg: core.Cfg{RW: j.RW}, Detail: detail, Extra: map[string]interface{}{"profile": "codec"}})
	}
	rwName := [...]string{"FileIO", "MMap"}[j.RW]
	switch j.Kind {
	case "entry":
		grid := entryGrid(j.Big)
		for gi, sp := range grid {
			if gi%j.Of != j.Shard {
				continue
			}
			e := nutsdb.VerifNewEntry(sp.key, sp.val, sp.f)
			enc := e.Encode()
			capacity := int64(len(enc) + 64)
			path := filepath.Join(dir, fmt.Sprintf("e%d.dat", gi))
			decode := func(img []byte) (*nutsdb.Entry, error, string) {
				full := make([]byte, capacity)
				copy(full, img)
				ioutil.WriteFile(path, full, 0644)
				df, err := nutsdb.NewDataFile(path, capacity, nutsdb.RWMode(j.RW))
				if err != nil {
					return nil, err, ""
				}
				defer nutsdb.VerifDataFileRW(df).Close()
				var got *nutsdb.Entry
				var rerr error
				pan := ""
				func() {
					defer func() {
						if r := recover(); r != nil {
							pan = fmt.Sprint(r)
						}
					}()
					got, rerr = df.ReadAt(0)
				}()
				out.Decodes++
				return got, rerr, pan
			}
			desc := fmt.Sprintf("%s entry key=%d value=%d bucket=%d bytes flag=%d status=%d ds=%d ts=%d ttl=%d txid=%d", rwName, len(sp.key), len(sp.val), len(sp.bucket), sp.f.Flag, sp.f.Status, sp.f.Ds, sp.f.Timestamp, sp.f.TTL, sp.f.TxID)
			// round trip through the real writer too
			os.Remove(path)
			df, err := nutsdb.NewDataFile(path, capacity, nutsdb.RWMode(j.RW))
			if err == nil {
				df.WriteAt(enc, 0)
				df.Sync()
				nutsdb.VerifDataFileRW(df).Close()
				stored, _ := ioutil.ReadFile(path)
				if !bytes.Equal(stored[:len(enc)], enc) {
					addV("write-mismatch", "entry:"+rwName, desc)
				}
			}
			out.Records++
			got, rerr, pan := decode(enc)
			if pan != "" {
				addV("panic", "entry-roundtrip:"+rwName, desc, pan)
			} else if rerr != nil {
				addV("roundtrip", "entry-error:"+rwName, desc, rerr.Error())
			} else if got == nil {
				// a written record has a non-zero checksum, so even one whose key, value and
				// timestamp are all empty/zero must read back
				addV("roundtrip", "entry-absent:"+rwName, desc)
			} else if got != nil {
				if d := sameEntry(got, sp); d != "" {
					addV("roundtrip", "entry-fields:"+rwName, desc, d)
				}
			}
			check := func(img []byte, what string) {
				got, rerr, pan := decode(img)
				switch {
				case pan != "":
					addV("panic", "entry-"+strings.Fields(what)[0]+":"+rwName, desc, what, pan)
				case rerr != nil:
					out.Rejected++
				case got == nil:
					out.Absent++
				default:
					if d := sameEntry(got, sp); d != "" {
						addV("corruption-served", "entry-"+strings.Fields(what)[0]+":"+rwName, desc, what, d)
					}
				}
			}
			for bit := 0; bit < len(enc)*8; bit++ {
				// a flip in the top byte of a size field makes the decoder allocate (and clear)
				// 16 MB..2 GB before it fails: in the quick tier those 24 flips are applied to every
				// 8th record only (all records in the thorough tier); the skipped ones are counted
				if by := bit / 8; !j.Big && (by == 15 || by == 19 || by == 29) && gi%8 != 0 {
					out.SkippedHighSizeFlips++
					continue
				}
				img := append([]byte(nil), enc...)
				img[bit/8] ^= 1 << uint(bit%8)
				out.Flips++
				check(img, fmt.Sprintf("flip of bit %d (byte %d)", bit, bit/8))
			}
			for t := 0; t < len(enc); t++ {
				out.Truncations++
				check(enc[:t], fmt.Sprintf("truncation to %d of %d bytes", t, len(enc)))
			}
			if out.Sample == "" {
				out.Sample = desc + fmt.Sprintf(": %d bit flips, %d truncations", len(enc)*8, len(enc))
			}
		}
	case "rootidx", "bucketmeta":
		lens := []int{1, 2, 17}
		offs := []uint64{0, 1, 1 << 63, ^uint64(0)}
		gi := 0
		for _, sl := range lens {
			for _, el := range lens {
				for _, fid := range offs {
					for _, ro := range offs {
						gi++
						if gi%j.Of != j.Shard {
							continue
						}
						if j.Kind == "bucketmeta" && (fid != 0 || ro != 0) {
							continue
						}
						start, end := fill(sl, 3), fill(el, 11)
						path := filepath.Join(dir, fmt.Sprintf("r%d", gi))
						var enc []byte
						desc := fmt.Sprintf("%s start=%d end=%d bytes fid=%d rootOff=%d", j.Kind, sl, el, fid, ro)
						if j.Kind == "rootidx" {
							enc = nutsdb.VerifNewRootIdx(fid, ro, start, end).Encode()
						} else {
							enc = nutsdb.VerifNewBucketMeta(start, end).Encode()
						}
						out.Records++
						decode := func(img []byte) (ok bool, absent bool, err error, diff string, pan string) {
							ioutil.WriteFile(path, img, 0644)
							defer func() {
								if r := recover(); r != nil {
									pan = fmt.Sprint(r)
								}
							}()
							out.Decodes++
							if j.Kind == "rootidx" {
								fd, e := vos.OpenFile(path, os.O_RDWR, 0644)
								if e != nil {
									return false, false, e, "", ""
								}
								defer fd.Close()
								r, e := nutsdb.ReadBPTreeRootIdxAt(fd, 0)
								if e != nil {
									return false, false, e, "", ""
								}
								if r == nil {
									return false, true, nil, "", ""
								}
								f, o, s, en := nutsdb.VerifRootIdxFields(r)
								if f != fid || o != ro || !bytes.Equal(s, start) || !bytes.Equal(en, end) {
									return false, false, nil, fmt.Sprintf("decoded fid=%d off=%d start=%q end=%q", f, o, s, en), ""
								}
								return true, false, nil, "", ""
							}
							m, e := nutsdb.ReadBucketMeta(path)
							if e != nil {
								return false, false, e, "", ""
							}
							if m == nil {
								return false, true, nil, "", ""
							}
							s, en := nutsdb.VerifBucketMetaFields(m)
							if !bytes.Equal(s, start) || !bytes.Equal(en, end) {
								return false, false, nil, fmt.Sprintf("decoded start=%q end=%q", s, en), ""
							}
							return true, false, nil, "", ""
						}
						ok, _, err, diff, pan := decode(enc)
						if !ok {
							addV("roundtrip", j.Kind, desc, fmt.Sprint(err), diff, pan)
						}
						if j.Kind == "bucketmeta" {
							// the library rewrites a bucket's meta record in place (WriteAt offset 0, no
							// truncation): a record that replaces a longer one is followed by the old tail
							// and must still decode to what was written
							longer := nutsdb.VerifNewBucketMeta(fill(17, 5), fill(17, 7)).Encode()
							if len(longer) > len(enc) {
								img := append(append([]byte(nil), enc...), longer[len(enc):]...)
								out.Records++
								if ok, _, err, diff, pan := decode(img); !ok {
									addV("roundtrip", j.Kind+"-over-longer", desc+" written over a longer record", fmt.Sprint(err), diff, pan)
								}
							}
						}
						check := func(img []byte, what string) {
							_, absent, err, diff, pan := decode(img)
							switch {
							case pan != "":
								addV("panic", j.Kind+"-"+strings.Fields(what)[0], desc, what, pan)
							case err != nil:
								out.Rejected++
							case absent:
								out.Absent++
							case diff != "":
								addV("corruption-served", j.Kind+"-"+strings.Fields(what)[0], desc, what, diff)
							}
						}
						for bit := 0; bit < len(enc)*8; bit++ {
							img := append([]byte(nil), enc...)
							img[bit/8] ^= 1 << uint(bit%8)
							out.Flips++
							check(img, fmt.Sprintf("flip of bit %d", bit))
						}
						for t := 0; t < len(enc); t++ {
							out.Truncations++
							check(enc[:t], fmt.Sprintf("truncation to %d of %d bytes", t, len(enc)))
						}
						if out.Sample == "" {
							out.Sample = desc + fmt.Sprintf(": %d bit flips, %d truncations", len(enc)*8, len(enc))
						}
					}
				}
			}
		}
	}
	return out
}

func init() {
	customHandlers["codec"] = codecWorker
	Registry["C21"] = func(r *Run) {
		r.Level = "fault_enumeration"
		r.Rule = "grid of records (entries: key/bucket lengths {0,1,2,17}, value lengths up to 300, all 14 flags, both statuses, 4 structure codes, extreme timestamps/TTLs/tx ids; root-index and bucket-meta records: start/end lengths {1,2,17}, extreme ids/offsets) -> real encoder and real writer -> exact round trip; then EVERY single-bit flip and EVERY truncation length of the stored bytes -> real decoder (DataFile.ReadAt over FileIO and MMap files, ReadBPTreeRootIdxAt, ReadBucketMeta; bucket-meta records also as the library rewrites them: in place over a longer record); oracle: error, or absent, or field-for-field equal to what was written. distinct_nontrivial = corrupted images rejected or treated as absent"
		r.Assume = []string{"single-bit flips and prefix truncations only (no multi-bit bursts)"}
		var args []interface{}
		shards := 8
		big := r.Tier == "thorough"
		if big {
			shards = 24 // the full grid applies every high size-bit flip (16 MB..2 GB allocations each)
		}
		for _, rw := range []int{core.F, core.M} {
			for s := 0; s < shards; s++ {
				args = append(args, codecJob{Kind: "entry", RW: rw, Shard: s, Of: shards, Big: big})
			}
		}
		args = append(args, codecJob{Kind: "rootidx", Shard: 0, Of: 2}, codecJob{Kind: "rootidx", Shard: 1, Of: 2}, codecJob{Kind: "bucketmeta", Shard: 0, Of: 1})
		var each func(i int, raw json.RawMessage, ok bool)
		var died []int
		retry := false
		each = func(i int, raw json.RawMessage, ok bool) {
			var o codecOut
			if (!ok || json.Unmarshal(raw, &o) != nil) && !retry {
				// many decoders allocating gigabytes side by side (or next to another check) can exhaust
				// the machine: a dead worker counts only if the job dies again when it runs alone
				died = append(died, i)
				return
			}
			if !ok || json.Unmarshal(raw, &o) != nil {
				r.Col.Add(eng.Violation{Prop: "C21", Kind: "worker-died", What: "decoder-crash", Atoms: []string{"decoder-crash"}, Detail: []string{fmt.Sprintf("codec job %+v killed its worker (out of memory or hang while decoding a corrupted record)", args[i])}, Extra: map[string]interface{}{"profile": "codec"}})
				return
			}
			r.Stats.Evals += o.Decodes
			r.Stats.Transitions += o.Decodes
			r.Stats.Extra["records"] += o.Records
			r.Stats.Extra["bit_flips"] += o.Flips
			r.Stats.Extra["truncations"] += o.Truncations
			r.Stats.Extra["high_size_bit_flips_skipped_in_quick_tier"] += o.SkippedHighSizeFlips
			if o.SkippedHighSizeFlips > 0 && r.Stats.Exhaustive {
				r.Stats.Exhaustive = false
				r.Stats.CapsHit = append(r.Stats.CapsHit, "quick tier: flips in the top byte of a size field are applied to every 8th record only (each costs a 16 MB..2 GB allocation in the decoder); thorough applies all")
			}
			r.Stats.Extra["rejected"] += o.Rejected
			r.Stats.Extra["treated_as_absent"] += o.Absent
			for k := 0; k < o.Records; k++ {
				r.Stats.States[fmt.Sprintf("job%d/%d", i, k)] = true
			}
			for k := 0; k < o.Rejected+o.Absent && k < 5000; k++ {
				r.Stats.Nontrivial[fmt.Sprintf("job%d/%d", i, k)] = true
			}
			r.Stats.Outcomes[fmt.Sprintf("rej%v-abs%v", o.Rejected > 0, o.Absent > 0)] = true
			if o.Sample != "" && len(r.Stats.Samples) < 6 {
				r.Stats.Samples = append(r.Stats.Samples, o.Sample)
			}
			for _, v := range o.Viol {
				r.Col.Add(v)
			}
		}
		var mu sync.Mutex
		r.Pool.ParallelCustom("codec", args, func(i int, raw json.RawMessage, ok bool) {
			mu.Lock()
			defer mu.Unlock()
			each(i, raw, ok)
		})
		retry = true
		for _, i := range died {
			raw, ok := r.Pool.Custom("codec", args[i])
			each(i, raw, ok)
		}
		r.Stats.Extra["codec_jobs_rerun_alone"] += len(died)
	}
}
