package checks

// c12FaultPart is replaced when the E2 fault injector is wired in.
var c12FaultPart = func(r *Run) {}

func init() {
	Registry["C12"] = func(r *Run) {
		r.Level = "fault_enumeration"
		r.Rule = "histories part: every sequence of <=depth ops over committed set-up writes (some sharing a millisecond with the previous transaction) and transactions that must have no effect (body error after j calls, explicit rollback, oversized entry at position 1..3 of a 3-call transaction, read-only transactions calling every mutating API, calls on finished transactions); for every no-effect op the full observation before = after = after close+reopen, and the op returned an error; committed ops are checked against the model and after reopen. fault part: every injectable file mutation of every commit fails once (error, or error after a partial write)"
		r.Assume = []string{"an injected sync error after a complete write only requires all-or-nothing (as the property states)"}
		r.Required = []string{"no-effect-op:view", "no-effect-op:update", "no-effect-op:begin-rollback", "finished-tx-calls", "same-ms"}
		r.Explore(c12Profile(r.Tier), "C12")
		c12FaultPart(r)
	}
}
