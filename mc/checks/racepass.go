package checks

import (
	"bytes"
	"fmt"
	"os"
	"os/exec"
	"regexp"
	"runtime"
	"runtime/debug"
	"sort"
	"strings"
	"sync"
	"sync/atomic"
	"time"

	"github.com/xujiajun/nutsdb"

	"verif/mc/core"
	"verif/mc/eng"
)

// R: the free-running race-detector pass (DESIGN.md 3.5).  The same harness bodies as E3 run
// WITHOUT the scheduler in a binary built with -race; a cooperative scheduler's hand-offs are
// happens-before edges, so the detector can only see races in a free-running execution.  This
// pass samples schedules (it is labelled as such in the evidence); a race report does not
// depend on timing, only on the two accesses happening unordered in one run.

// RaceMain is the body of `vmc racepass <prefix> <rounds> <seed>` (run in the -race binary).
func RaceMain(prefix string, rounds int, seed int64) {
	runtime.GOMAXPROCS(16)
	core.RealClocks = true // the virtual clocks are unsynchronised harness state
	names := harnessNames(prefix)
	for round := 0; round < rounds; round++ {
		for _, n := range names {
			h := harnesses[n]()
			core.InstallClock()
			var insts []*core.Inst
			for i := 0; i < h.ndb; i++ {
				in := core.OpenInst(h.cfg)
				insts = append(insts, in)
				for _, op := range h.setup {
					in.Apply(op)
				}
			}
			var wg sync.WaitGroup
			start := make(chan struct{})
			copies := 16 / len(h.threads)
			if copies < 1 {
				copies = 1
			}
			var dirs []string
			var dmu sync.Mutex
			var pmu sync.Mutex
			var poisoned int32
			panicked := ""
			for c := 0; c < copies; c++ {
				for ti := range h.threads {
					t := h.threads[ti]
					if (t.kind == "close" || t.kind == "merge" || t.kind == "backup") && c > 0 {
						continue
					}
					in := insts[t.db]
					wg.Add(1)
					yields := int((seed + int64(round) + int64(c*7+ti)) % 4)
					go func() {
						defer wg.Done()
						defer func() {
							// a panic inside a transaction leaves the database lock held: the other threads
							// of the round can never finish.  It is recorded (not swallowed) and the round
							// is abandoned.
							if p := recover(); p != nil {
								pmu.Lock()
								if panicked == "" {
									panicked = fmt.Sprintf("%v\n%s", p, debug.Stack())
								}
								pmu.Unlock()
								atomic.StoreInt32(&poisoned, 1)
							}
						}()
						<-start
						for y := 0; y < yields; y++ {
							runtime.Gosched()
						}
						switch t.kind {
						case "update", "view":
							fn := func(tx *nutsdb.Tx) error {
								return t.body(func(c core.Call) core.Res { return core.ExecCall(tx, c) }, runtime.Gosched)
							}
							if t.kind == "update" {
								in.DB.Update(fn)
							} else {
								in.DB.View(fn)
							}
						case "merge":
							in.DB.Merge()
						case "backup":
							d := core.NewDir()
							dmu.Lock()
							dirs = append(dirs, d)
							dmu.Unlock()
							in.DB.Backup(d)
						case "close":
							in.DB.Close()
						}
					}()
				}
			}
			close(start)
			// a free-running round takes milliseconds; one that has not finished after two minutes
			// is blocked for good (a lock that is never released): report it and stop, the blocked
			// goroutines cannot be cancelled
			done := make(chan struct{})
			go func() { wg.Wait(); close(done) }()
			deadline := time.After(120 * time.Second)
			tick := time.NewTicker(20 * time.Millisecond)
			abandoned := false
		wait:
			for {
				select {
				case <-done:
					break wait
				case <-tick.C:
					if atomic.LoadInt32(&poisoned) != 0 {
						// give the others a moment, then leave the round (its threads may be blocked on
						// the lock the panicking transaction held)
						select {
						case <-done:
						case <-time.After(300 * time.Millisecond):
							abandoned = true
						}
						break wait
					}
					continue
				case <-deadline:
					buf := make([]byte, 1<<20)
					buf = buf[:runtime.Stack(buf, true)]
					fmt.Fprintf(os.Stderr, "\nVERIF-BLOCKED harness=%s round=%d\n%s\nVERIF-BLOCKED-END\n", n, round, buf)
					os.RemoveAll(core.ScratchRoot)
					os.Exit(3)
				}
			}
			tick.Stop()
			pmu.Lock()
			if panicked != "" {
				fmt.Fprintf(os.Stderr, "\nVERIF-PANIC harness=%s round=%d\n%s\nVERIF-PANIC-END\n", n, round, panicked)
			}
			pmu.Unlock()
			if abandoned {
				// the instances cannot be closed (the lock is held for good) and the threads of this round
				// may still be running: nothing more can be run in this process without racing with them
				fmt.Fprintf(os.Stderr, "VERIF-ROUNDS-DONE %d\n", round+1)
				os.RemoveAll(core.ScratchRoot)
				os.Exit(4)
			}
			for _, in := range insts {
				func() {
					defer func() { recover() }()
					in.Discard()
				}()
			}
			for _, d := range dirs {
				os.RemoveAll(d)
			}
		}
	}
	os.RemoveAll(core.ScratchRoot)
}

var raceFrame = regexp.MustCompile(`(?m)^  (github\.com/xujiajun/nutsdb[^\n]*?)\(\)\s*$`)

// parseRaces extracts one atom per distinct race report: the innermost nutsdb frames of the two
// conflicting accesses.
func parseRaces(out string) map[string]string {
	res := map[string]string{}
	blocks := strings.Split(out, "WARNING: DATA RACE")
	for _, b := range blocks[1:] {
		if i := strings.Index(b, "=================="); i >= 0 {
			b = b[:i]
		}
		// sections: "Write at ... by goroutine", "Previous read at ..."
		secs := regexp.MustCompile(`(?m)^(Write|Read|Previous write|Previous read) at `).Split(b, -1)
		var tops []string
		for _, s := range secs[1:] {
			if j := strings.Index(s, "\n\n"); j >= 0 {
				s = s[:j]
			}
			if ms := raceFrame.FindAllStringSubmatch(s, -1); len(ms) > 0 {
				trim := func(f string) string {
					f = strings.TrimPrefix(f, "github.com/xujiajun/nutsdb")
					return strings.TrimPrefix(f, ".")
				}
				// innermost library frame, and the library entry point it was reached from (the
				// outermost library frame that is not the managed-transaction wrapper)
				f := trim(ms[0][1])
				api := ""
				for i := len(ms) - 1; i > 0; i-- {
					if a := trim(ms[i][1]); a != "(*DB).managed" {
						api = a
						break
					}
				}
				if api != "" && api != f {
					f += "@" + api
				}
				tops = append(tops, f)
			}
		}
		if len(tops) == 0 {
			tops = []string{"unknown"}
		}
		sort.Strings(tops)
		atom := "race:" + strings.Join(tops, "<>")
		if _, ok := res[atom]; !ok {
			if len(b) > 1500 {
				b = b[:1500]
			}
			res[atom] = b
		}
	}
	return res
}

func init() {
	racePass = func(r *Run, prop string) {
		bin := os.Getenv("VMC_RACE_BIN")
		if bin == "" {
			r.Extra["race_pass"] = "skipped: no -race binary (VMC_RACE_BIN unset)"
			return
		}
		rounds := 150
		if r.Tier == "thorough" {
			rounds = 3000
		}
		// one child per harness: a child that the Go runtime kills ("fatal error: concurrent map read
		// and map write" - an unsynchronised map access caught by the runtime itself, not
		// recoverable) ends the rounds of its own harness only
		var out strings.Builder
		var errs []string
		fatal := map[string]string{}
		for _, hn := range harnessNames(prop + "/") {
			// a child that had to stop early (a panic poisoned a round, or the Go runtime aborted it) is
			// started again, a few times, for the rounds that are left
			left, o := rounds, ""
			for attempt := 0; attempt < 5 && left > 0; attempt++ {
				cmd := exec.Command(bin, "racepass", hn, fmt.Sprint(left), fmt.Sprint(r.Seed+int64(attempt)*1000))
				cmd.Env = append(os.Environ(), "GORACE=halt_on_error=0 exitcode=0 history_size=2")
				var buf bytes.Buffer
				cmd.Stderr = &buf
				cmd.Stdout = &buf
				err := cmd.Run()
				o += buf.String()
				if err == nil {
					left = 0
					break
				}
				errs = append(errs, hn+": "+err.Error())
				done := 1
				if m := regexp.MustCompile(`VERIF-ROUNDS-DONE (\d+)`).FindStringSubmatch(buf.String()); m != nil {
					fmt.Sscan(m[1], &done)
				}
				left -= done
				if strings.Contains(buf.String(), "VERIF-BLOCKED harness") {
					break
				}
			}
			out.WriteString(o)
			if i := strings.Index(o, "\nfatal error: "); i >= 0 {
				msg := o[i+len("\nfatal error: "):]
				if j := strings.Index(msg, "\n"); j >= 0 {
					tail := msg[j:]
					msg = msg[:j]
					// the library entry point of the goroutine the runtime stopped in
					api := ""
					for _, l := range strings.Split(tail, "\n") {
						if strings.HasPrefix(l, "github.com/xujiajun/nutsdb.") {
							api = strings.TrimPrefix(l[:strings.Index(l+"(", "(0x")], "github.com/xujiajun/nutsdb.")
							if strings.HasPrefix(api, "(*DB).") && api != "(*DB).managed" {
								break
							}
						}
						if strings.HasPrefix(l, "goroutine ") && api != "" {
							break
						}
					}
					fatal["race:runtime-fatal("+strings.Replace(msg, " ", "-", -1)+")@"+api] = clip(o[i:], 1500)
				}
			}
		}
		var buf bytes.Buffer
		buf.WriteString(out.String())
		var err error
		if len(errs) > 0 {
			err = fmt.Errorf("%s", strings.Join(errs, "; "))
		}
		races := parseRaces(buf.String())
		for a, d := range fatal {
			races[a] = d
		}
		// panics inside transactions of the free-running pass
		for _, blk := range strings.Split(buf.String(), "VERIF-PANIC harness=")[1:] {
			if e := strings.Index(blk, "VERIF-PANIC-END"); e >= 0 {
				blk = blk[:e]
			}
			site, api := "", ""
			for _, l := range strings.Split(blk, "\n") {
				if strings.HasPrefix(l, "github.com/xujiajun/nutsdb") && !strings.Contains(l, "verifshim") {
					f := strings.TrimPrefix(l, "github.com/xujiajun/nutsdb")
					f = strings.TrimPrefix(f, ".")
					if i := strings.LastIndex(f, "("); i > 0 {
						f = f[:i]
					}
					if site == "" {
						site = f
					}
					if f != "(*DB).managed" {
						api = f
					}
				}
			}
			a := "race:panic:" + site + "@" + api
			if _, ok := races[a]; !ok {
				races[a] = clip(blk, 1500)
			}
		}
		info := map[string]interface{}{"rounds": rounds, "goroutines": 16, "distinct_race_reports": len(races), "sampling": true, "runtime_fatal_errors": len(fatal)}
		if m := regexp.MustCompile(`VERIF-BLOCKED harness=(\S+) round=(\d+)`).FindStringSubmatch(buf.String()); m != nil {
			out := buf.String()
			dump := out[strings.Index(out, "VERIF-BLOCKED"):]
			var frames []string
			for _, l := range strings.Split(dump, "\n") {
				if strings.HasPrefix(l, "github.com/xujiajun/nutsdb.") && len(frames) < 40 {
					frames = append(frames, l)
				}
			}
			a := "blocked:" + m[1]
			r.Col.Add(eng.Violation{Prop: prop, Kind: "blocked-forever", What: a, Atoms: []string{a},
				Detail: append([]string{"free-running pass: harness " + m[1] + " round " + m[2] + ": the threads had not finished after 120 s (a round takes milliseconds); nutsdb frames of the goroutine dump:"}, frames...),
				Extra:  map[string]interface{}{"profile": "race"}})
			info["blocked"] = m[1]
		}
		if err != nil {
			info["error"] = err.Error()
		}
		r.Extra["race_pass"] = info
		var atoms []string
		for a := range races {
			atoms = append(atoms, a)
		}
		sort.Strings(atoms)
		for _, a := range atoms {
			r.Col.Add(eng.Violation{Prop: prop, Kind: "data-race", What: a, Atoms: []string{a}, Tags: nil,
				Detail: strings.Split(races[a], "\n"), Extra: map[string]interface{}{"profile": "race"}})
		}
	}
}

func clip(s string, n int) string {
	if len(s) > n {
		return s[:n]
	}
	return s
}
