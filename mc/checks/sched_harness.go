package checks

import (
	"encoding/json"
	"fmt"
	"sort"
	"strings"

	"github.com/anishathalye/porcupine"
	"github.com/xujiajun/nutsdb"

	"verif/mc/core"
	"verif/mc/eng"
)

// txRec is what one harness thread did: the calls it issued with their results.
type txRec struct {
	Thread   string
	DB       int
	Kind     string // update | view | merge | backup | close
	Calls    []core.Call
	Results  []core.Res
	Err      string
	Call     int64 // logical time of the call
	Ret      int64 // logical time of the return
	Finished bool
}

type hthread struct {
	name string
	db   int
	kind string // update | view | merge | backup | close
	// body issues calls through do (which records them) and may call yield between them
	body func(do func(core.Call) core.Res, yield func()) error
}

type harness struct {
	name    string
	cfg     core.Cfg
	ndb     int
	setup   []core.Op // applied to every database before the threads start
	threads []hthread
	classes []string
	queries []core.Call
}

var baseClasses = []string{"fs-write", "fs-open", "fs-sync", "fs-remove", "fs-truncate", "fs-mmap", "fs-close", "clock", "yield"}

type schedExec struct {
	s       *eng.Sched
	recs    []*txRec
	insts   []*core.Inst
	hung    bool
	final   [][]core.Res
	reopen  [][]core.Res
	openErr []string
	backups []string
}

// runHarness executes one schedule of a harness on fresh databases.
func runHarness(h *harness, prefix []int) *schedExec {
	ex := &schedExec{}
	core.InstallClock()
	for i := 0; i < h.ndb; i++ {
		in := core.OpenInst(h.cfg)
		ex.insts = append(ex.insts, in)
		for _, op := range h.setup {
			in.Apply(op)
		}
	}
	s := eng.NewSched(prefix, h.classes)
	ex.s = s
	for ti := range h.threads {
		t := h.threads[ti]
		rec := &txRec{Thread: t.name, DB: t.db, Kind: t.kind}
		ex.recs = append(ex.recs, rec)
		in := ex.insts[t.db]
		s.Go(t.name, func() {
			rec.Call = s.Step
			defer func() {
				rec.Ret = s.Step
				rec.Finished = true
			}()
			switch t.kind {
			case "update", "view":
				fn := func(tx *nutsdb.Tx) error {
					do := func(c core.Call) core.Res {
						r := core.ExecCall(tx, c)
						rec.Calls = append(rec.Calls, c)
						rec.Results = append(rec.Results, r)
						return r
					}
					return t.body(do, s.Yield)
				}
				var err error
				if t.kind == "update" {
					err = in.DB.Update(fn)
				} else {
					err = in.DB.View(fn)
				}
				if err != nil {
					rec.Err = err.Error()
				}
			case "merge":
				if err := in.DB.Merge(); err != nil {
					rec.Err = err.Error()
				}
			case "backup":
				dir := core.NewDir()
				ex.backups = append(ex.backups, dir)
				if err := in.DB.Backup(dir); err != nil {
					rec.Err = err.Error()
				}
			case "close":
				if err := in.DB.Close(); err != nil {
					rec.Err = err.Error()
				}
			}
		})
	}
	ex.hung = !s.Run()
	return ex
}

func (ex *schedExec) discard() {
	for _, in := range ex.insts {
		if ex.hung || ex.s.Deadlock != "" || len(ex.s.Panics()) > 0 || ex.s.Livelock {
			in.Poisoned = "abandoned"
		}
		in.Discard()
	}
	for _, d := range ex.backups {
		removeAll(d)
	}
}

// serialOrders enumerates the serial orders of the finished transactions of one database that
// respect real time and explain every recorded result; it returns the final model of each.
func serialOrders(init *core.State, recs []*txRec) (finals []*core.State, explain string) {
	n := len(recs)
	perm := make([]int, 0, n)
	used := make([]bool, n)
	var firstFail string
	var rec func(model *core.State)
	rec = func(model *core.State) {
		if len(perm) == n {
			finals = append(finals, model)
			return
		}
		for i := 0; i < n; i++ {
			if used[i] {
				continue
			}
			// real time: nobody still unplaced returned before i was called
			okRT := true
			for j := 0; j < n; j++ {
				if j != i && !used[j] && recs[j].Ret < recs[i].Call {
					okRT = false
				}
			}
			if !okRT {
				continue
			}
			work := model.Clone()
			bad := ""
			for ci, c := range recs[i].Calls {
				var exp core.Expect
				if recs[i].Kind == "view" && core.IsMutator(c.F) {
					exp = core.Expect{Err: 1}
				} else {
					exp = work.Eval(c, recs[i].Results[ci])
				}
				if msg := exp.Check(recs[i].Results[ci]); msg != "" {
					bad = fmt.Sprintf("%s call %d %s: %s", recs[i].Thread, ci+1, c, msg)
					break
				}
			}
			if bad != "" {
				if firstFail == "" {
					firstFail = bad
				}
				continue
			}
			next := model
			if recs[i].Kind == "update" && recs[i].Err == "" {
				next = work
			}
			used[i] = true
			perm = append(perm, i)
			rec(next)
			perm = perm[:len(perm)-1]
			used[i] = false
		}
	}
	rec(init)
	return finals, firstFail
}

// porcupineCheck cross-checks strict serializability with porcupine.
func porcupineCheck(init *core.State, recs []*txRec) bool {
	model := porcupine.Model{
		Init: func() interface{} { return init },
		Step: func(state, input, output interface{}) (bool, interface{}) {
			st := state.(*core.State)
			r := input.(*txRec)
			work := st.Clone()
			for ci, c := range r.Calls {
				var exp core.Expect
				if r.Kind == "view" && core.IsMutator(c.F) {
					exp = core.Expect{Err: 1}
				} else {
					exp = work.Eval(c, r.Results[ci])
				}
				if exp.Check(r.Results[ci]) != "" {
					return false, st
				}
			}
			if r.Kind == "update" && r.Err == "" {
				return true, work
			}
			return true, st
		},
		Equal: func(a, b interface{}) bool { return a.(*core.State).Canon() == b.(*core.State).Canon() },
	}
	var ops []porcupine.Operation
	for i, r := range recs {
		ops = append(ops, porcupine.Operation{ClientId: i, Input: r, Call: r.Call * 2, Output: r, Return: r.Ret*2 + 1})
	}
	return porcupine.CheckOperations(model, ops)
}

type schedJob struct {
	Harness string `json:"harness"`
	Bound   int    `json:"bound"`
	Max     int    `json:"max"`
	BudgetS int    `json:"budget_s"`
}

type schedOut struct {
	Harness        string          `json:"harness"`
	Schedules      int             `json:"schedules"`
	WithPreemption int             `json:"with_preemption"`
	DistinctTraces int             `json:"distinct_traces"`
	Outcomes       int             `json:"outcomes"`
	MaxPoints      int             `json:"max_points"`
	Points         int             `json:"points"`
	Bound          int             `json:"bound_completed"`
	Capped         bool            `json:"capped"`
	Determinism    bool            `json:"determinism_ok"`
	Kinds          []string        `json:"point_kinds"`
	Viol           []eng.Violation `json:"viol"`
	Evals          int             `json:"evals"`
	Sample         string          `json:"sample"`
	PorcupineRuns  int             `json:"porcupine_runs"`
}

var harnesses = map[string]func() *harness{}

func removeAll(d string) { _ = osRemoveAll(d) }

// exploreHarness is the worker-side body of an E3 job.
func exploreHarness(arg json.RawMessage) interface{} {
	var j schedJob
	json.Unmarshal(arg, &j)
	mk := harnesses[j.Harness]
	if mk == nil {
		return schedOut{Harness: j.Harness}
	}
	h := mk()
	out := schedOut{Harness: j.Harness}
	seen := map[string]bool{}
	addV := func(prop, kind, what string, s *eng.Sched, detail ...string) {
		key := kind + "|" + what
		if seen[key] {
			return
		}
		seen[key] = true
		out.Viol = append(out.Viol, eng.Violation{Prop: prop, Kind: kind, Cfg: h.cfg, What: what, Atoms: []string{what}, Tags: []string{j.Harness},
			Detail: detail, Extra: map[string]interface{}{"profile": "sched", "harness": j.Harness, "schedule": s.Choices(), "preemptions": countPre(s)}})
	}
	prop := strings.SplitN(j.Harness, "/", 2)[0]
	start := nowSec()
	deadline := func() bool { return j.BudgetS > 0 && nowSec()-start > int64(j.BudgetS) }
	run := func(prefix []int) (*eng.Sched, string) {
		ex := runHarness(h, prefix)
		defer ex.discard()
		s := ex.s
		outcome := judgeExec(h, ex, prop, addV, &out)
		return s, outcome
	}
	st := eng.ExploreSchedules(j.Bound, j.Max, deadline, run, func(s *eng.Sched, outcome string) bool { return true })
	out.Schedules, out.WithPreemption, out.DistinctTraces, out.Outcomes = st.Schedules, st.WithPreemption, len(st.DistinctTraces), len(st.Outcomes)
	out.MaxPoints, out.Points, out.Bound, out.Capped, out.Determinism, out.Kinds = st.MaxPoints, st.Points, st.BoundCompleted, st.Capped, st.DeterminismOK, st.KindsSorted()
	var names []string
	for _, t := range h.threads {
		names = append(names, t.name+"("+t.kind+")")
	}
	out.Sample = fmt.Sprintf("%s on %s: threads %s, %d schedules", j.Harness, h.cfg, strings.Join(names, " || "), st.Schedules)
	return out
}

func countPre(s *eng.Sched) int {
	n := 0
	for _, p := range s.Trace {
		if p.CurEnabled && p.Choice != 0 {
			n++
		}
	}
	return n
}

// judgeExec applies the E3 oracles to one execution and returns an outcome label.
func judgeExec(h *harness, ex *schedExec, prop string, addV func(prop, kind, what string, s *eng.Sched, detail ...string), out *schedOut) string {
	s := ex.s
	if ex.hung {
		addV(prop, "hang", "hang", s, "the execution did not finish within 30 s")
		return "hang"
	}
	if s.Livelock {
		addV(prop, "livelock", "livelock", s, "more than 20000 scheduling points")
		return "livelock"
	}
	if s.Deadlock != "" {
		addV(prop, "deadlock", "deadlock", s, s.Deadlock)
		return "deadlock"
	}
	if ps := s.Panics(); len(ps) > 0 {
		addV(prop, "panic", "panic:"+eng.ErrClass(ps[0]), s, ps...)
		return "panic"
	}
	// a backup is judged as a read-only transaction whose reads are the full observation of the
	// copy: the copy must show a state the database had at some moment of the backup's interval
	bi := 0
	for _, r := range ex.recs {
		if r.Kind != "backup" {
			continue
		}
		dir := ex.backups[bi]
		bi++
		if r.Err != "" {
			addV(prop, "backup-failed", eng.ErrClass(r.Err), s, r.Err)
			return "backup-failed"
		}
		cp := core.OpenDir(h.cfg, dir, ex.insts[r.DB].Model)
		if cp.OpenErr != nil {
			addV(prop, "backup-open-error", eng.ErrClass(cp.OpenErr.Error()), s, cp.OpenErr.Error())
			return "backup-open-error"
		}
		obs, err := cp.Observe(h.queries)
		cp.CloseOnly()
		if err != nil {
			addV(prop, "backup-obs-failed", "View", s, err.Error())
			return "backup-obs-failed"
		}
		r.Calls, r.Results = h.queries, obs
	}
	var label []string
	for db := 0; db < h.ndb; db++ {
		in := ex.insts[db]
		var recs []*txRec
		closed := false
		for _, r := range ex.recs {
			if r.DB != db {
				continue
			}
			if r.Kind == "close" {
				closed = true
			}
			if r.Kind == "update" || r.Kind == "view" || r.Kind == "backup" {
				// a transaction refused because the database was closed took no part
				if r.Err != "" && len(r.Calls) == 0 {
					continue
				}
				recs = append(recs, r)
			}
			label = append(label, fmt.Sprintf("%s:%v:%s", r.Thread, r.Results, errClassShort(r.Err)))
		}
		// no harness body returns an error and no fault is injected: a transaction that fails although
		// the database was not closed under it failed for a reason of the library's own making (it is
		// NOT simply counted as aborted)
		hasClose := false
		for _, t := range h.threads {
			if t.kind == "close" {
				hasClose = true
			}
		}
		if !hasClose {
			for _, r := range recs {
				if r.Err != "" {
					addV(prop, "tx-failed", r.Kind+":"+eng.ErrClass(r.Err), s, fmt.Sprintf("%s (%s) returned %q although no call of its body failed on purpose and nothing closed the database", r.Thread, r.Kind, r.Err))
					return "tx-failed"
				}
			}
		}
		init := in.Model // the model after set-up (threads do not touch Inst.Model)
		finals, why := serialOrders(init, recs)
		out.Evals += len(recs)
		pc := porcupineCheck(init, recs)
		out.PorcupineRuns++
		if pc != (len(finals) > 0) {
			fmt.Printf("HARNESS-ERROR: porcupine (%v) and the brute-force checker (%d orders) disagree\n", pc, len(finals))
			osExit(2)
		}
		if len(finals) == 0 {
			var det []string
			for _, r := range recs {
				det = append(det, fmt.Sprintf("%s [%d,%d] err=%q calls=%v results=%v", r.Thread, r.Call, r.Ret, r.Err, r.Calls, r.Results))
			}
			addV(prop, "not-serializable", "history:"+firstCallName(why), s, append([]string{"no serial order consistent with real time explains the results; first mismatch: " + why}, det...)...)
			return "not-serializable"
		}
		// snapshot stability is part of the same check: a view that reads a key twice and sees two
		// values cannot be explained by any serial order.
		if closed {
			// reopen and compare with the final states
			db2 := core.OpenDir(h.cfg, in.Dir, finals[0])
			if db2.OpenErr != nil {
				addV(prop, "open-error-after-close", eng.ErrClass(db2.OpenErr.Error()), s, db2.OpenErr.Error())
				return "open-error"
			}
			in.DB = db2.DB
		}
		obs, err := in.Observe(h.queries)
		if err != nil {
			addV(prop, "obs-failed", "View", s, err.Error())
			return "obs-failed"
		}
		matched := false
		var firstBad []core.Mismatch
		for _, f := range finals {
			bad := core.CheckObs(f, h.queries, obs)
			if len(bad) == 0 {
				matched = true
				break
			}
			if firstBad == nil {
				firstBad = bad
			}
		}
		if !matched {
			var det []string
			for _, m := range firstBad {
				det = append(det, m.String())
			}
			addV(prop, "final-state", firstBad[0].Atom(), s, append([]string{fmt.Sprintf("the final observation of db %d matches none of the %d valid serial orders", db, len(finals))}, det...)...)
			return "final-state"
		}
		// after reopen
		if err := in.CloseOnly(); err == nil {
			in2 := core.OpenDir(h.cfg, in.Dir, finals[0])
			if in2.OpenErr != nil {
				addV(prop, "open-error", eng.ErrClass(in2.OpenErr.Error()), s, in2.OpenErr.Error())
				return "open-error"
			}
			obs2, _ := in2.Observe(h.queries)
			in2.CloseOnly()
			if d := core.DiffObs(h.queries, obs, obs2); len(d) > 0 {
				var det []string
				for _, m := range d {
					det = append(det, m.String())
				}
				addV(prop, "reopen-diff", d[0].Atom(), s, det...)
				return "reopen-diff"
			}
		}
	}
	sort.Strings(label)
	return core.Hash(strings.Join(label, "|"))
}

func firstCallName(why string) string {
	// "<thread> call N Name(args): ..."
	f := strings.Fields(why)
	if len(f) >= 4 {
		n := f[3]
		if i := strings.Index(n, "("); i > 0 {
			return n[:i]
		}
	}
	return "?"
}

func errClassShort(e string) string {
	if e == "" {
		return "ok"
	}
	return "err"
}

func init() {
	customHandlers["sched"] = exploreHarness
}
