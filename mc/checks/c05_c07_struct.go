package checks

import (
	"encoding/json"
	"fmt"
	"math"
	"sort"
	"strconv"
	"strings"

	"github.com/xujiajun/nutsdb/ds/list"
	"github.com/xujiajun/nutsdb/ds/set"
	"github.com/xujiajun/nutsdb/ds/zset"

	"verif/mc/core"
	"verif/mc/eng"
)

// Structure-level closed explorations (DESIGN.md section 5, C05-C07): the exported data
// structures are driven directly, every state of a finite scope is reached and every operation
// and query is applied in every state.

type structOut struct {
	States      int             `json:"states"`
	Transitions int             `json:"transitions"`
	Queries     int             `json:"queries"`
	Closed      bool            `json:"closed"`
	Viol        []eng.Violation `json:"viol"`
	Sample      string          `json:"sample"`
	Nontrivial  int             `json:"nontrivial"`
}

type structJob struct {
	What string `json:"what"`
	Big  bool   `json:"big"`
}

func qs(s string) string { return strconv.Quote(s) }

func fmtBL(l [][]byte) string {
	items := make([]string, len(l))
	for i, b := range l {
		items[i] = qs(string(b))
	}
	return "[" + strings.Join(items, ",") + "]"
}

// ---- lists

func listExec(l *list.List, c core.Call) (r core.Res) {
	defer func() {
		if p := recover(); p != nil {
			r = core.Res{Err: true, Panic: fmt.Sprintf("%s: %v", c.F, p)}
		}
	}()
	e := func(err error) core.Res {
		if err != nil {
			return core.Res{Err: true, Msg: err.Error()}
		}
		return core.Res{}
	}
	bs := func(vs []string) [][]byte {
		out := make([][]byte, len(vs))
		for i, v := range vs {
			out[i] = []byte(v)
		}
		return out
	}
	item := func(it []byte, err error) core.Res {
		if err != nil {
			return core.Res{Err: true, Msg: err.Error()}
		}
		if it == nil {
			return core.Res{Val: "nil"}
		}
		return core.Res{Val: qs(string(it))}
	}
	switch c.F {
	case "RPush":
		_, err := l.RPush(c.K, bs(c.Vs)...)
		return e(err)
	case "LPush":
		_, err := l.LPush(c.K, bs(c.Vs)...)
		return e(err)
	case "LPop":
		return item(l.LPop(c.K))
	case "RPop":
		return item(l.RPop(c.K))
	case "LPeek":
		return item(l.LPeek(c.K))
	case "RPeek":
		it, _, err := l.RPeek(c.K)
		return item(it, err)
	case "LSize":
		n, err := l.Size(c.K)
		if err != nil {
			return core.Res{Err: true, Msg: err.Error()}
		}
		return core.Res{Val: strconv.Itoa(n)}
	case "LRange":
		v, err := l.LRange(c.K, c.I, c.J)
		if err != nil {
			return core.Res{Err: true, Msg: err.Error()}
		}
		return core.Res{Val: fmtBL(v)}
	case "LRem":
		n, err := l.LRem(c.K, c.I, []byte(c.V))
		if err != nil {
			return core.Res{Err: true, Msg: err.Error()}
		}
		return core.Res{Val: strconv.Itoa(n)}
	case "LSet":
		return e(l.LSet(c.K, c.I, []byte(c.V)))
	case "LTrim":
		return e(l.Ltrim(c.K, c.I, c.J))
	}
	panic("listExec " + c.F)
}

func listClosure(arg json.RawMessage) interface{} {
	var j structJob
	json.Unmarshal(arg, &j)
	out := &structOut{}
	vals := []string{"a", "b", "a|b", ""}
	maxLen := 3
	if j.Big {
		maxLen = 4
	}
	seenV := map[string]bool{}
	addV := func(kind, what, state string, c core.Call, detail string) {
		if seenV[kind+what] {
			return
		}
		seenV[kind+what] = true
		out.Viol = append(out.Viol, eng.Violation{Prop: "C05", Kind: kind, What: what, Atoms: []string{what}, Tags: []string{"ds/list"},
			Detail: []string{"state k=" + state + ", j=[\"x\"]", "call " + c.String(), detail}, Extra: map[string]interface{}{"profile": "struct"}})
	}
	// all states of key "k" (the structure has no other state than its contents)
	var states [][]string
	var gen func(cur []string)
	gen = func(cur []string) {
		states = append(states, append([]string(nil), cur...))
		if len(cur) == maxLen {
			return
		}
		for _, v := range vals {
			gen(append(cur, v))
		}
	}
	gen(nil)
	build := func(st []string, fresh bool) (*list.List, *core.State) {
		l := list.New()
		m := core.NewState()
		if !fresh || len(st) > 0 {
			l.Items["k"] = [][]byte{}
			m.List["b"] = map[string][]string{"k": {}}
		}
		for _, v := range st {
			l.Items["k"] = append(l.Items["k"], []byte(v))
			m.List["b"]["k"] = append(m.List["b"]["k"], v)
		}
		l.Items["j"] = [][]byte{[]byte("x")}
		if m.List["b"] == nil {
			m.List["b"] = map[string][]string{}
		}
		m.List["b"]["j"] = []string{"x"}
		return l, m
	}
	for si, st := range states {
		n := len(st)
		var calls []core.Call
		idx := []int{math.MinInt64}
		for i := -n - 2; i <= n+1; i++ {
			idx = append(idx, i)
		}
		idx = append(idx, math.MaxInt64)
		for _, s := range idx {
			for _, e := range idx {
				calls = append(calls, core.Call{F: "LRange", K: "k", I: s, J: e}, core.Call{F: "LTrim", K: "k", I: s, J: e})
			}
		}
		for _, c := range idx {
			if c < -n-1 && c != math.MinInt64 || c > n+1 && c != math.MaxInt64 {
				continue
			}
			for _, v := range vals {
				calls = append(calls, core.Call{F: "LRem", K: "k", I: c, V: v})
			}
			calls = append(calls, core.Call{F: "LSet", K: "k", I: c, V: "z"}, core.Call{F: "LSet", K: "k", I: c, V: "a|b"})
		}
		for _, v := range vals {
			calls = append(calls, core.Call{F: "RPush", K: "k", Vs: []string{v}}, core.Call{F: "LPush", K: "k", Vs: []string{v}},
				core.Call{F: "RPush", K: "k", Vs: []string{v, "b"}}, core.Call{F: "LPush", K: "k", Vs: []string{v, "b"}})
		}
		calls = append(calls, core.Call{F: "LPop", K: "k"}, core.Call{F: "RPop", K: "k"}, core.Call{F: "LPeek", K: "k"}, core.Call{F: "RPeek", K: "k"}, core.Call{F: "LSize", K: "k"})
		for _, fresh := range []bool{false, true} {
			if fresh && n > 0 {
				continue
			}
			for _, c := range calls {
				c.B = "b"
				l, m := build(st, fresh)
				r := listExec(l, c)
				exp := m.Eval(c, r)
				out.Transitions++
				if core.IsMutator(c.F) {
					out.Queries++
				} else {
					out.Queries++
				}
				stS := fmt.Sprintf("%q", st)
				if r.Panic != "" {
					addV("panic", c.F+core.ArgClass(c)+":panic", stS, c, r.Panic)
					continue
				}
				if msg := exp.Check(r); msg != "" {
					addV("call-result", c.F+":"+exp.Symptom(r), stS, c, msg)
					continue
				}
				// contents afterwards
				got := []string{}
				for _, b := range l.Items["k"] {
					got = append(got, string(b))
				}
				want := m.List["b"]["k"]
				if fmt.Sprintf("%q", got) != fmt.Sprintf("%q", append([]string{}, want...)) {
					addV("state-after", c.F+":contents", stS, c, fmt.Sprintf("list is %q, model %q", got, want))
				}
				if len(l.Items["j"]) != 1 || string(l.Items["j"][0]) != "x" {
					addV("state-after", c.F+":other-key-changed", stS, c, "list j changed")
				}
			}
		}
		if si == len(states)/2 {
			out.Sample = fmt.Sprintf("state %q: %d calls applied (LRange/LTrim over all index pairs in {MinInt64,-n-2..n+1,MaxInt64}, LRem over all counts and values, LSet, pushes, pops, peeks)", st, len(calls))
		}
		if n > 0 {
			out.Nontrivial++
		}
	}
	out.States = len(states)
	out.Closed = true
	return out
}

// ---- sets

func setClosure(arg json.RawMessage) interface{} {
	out := &structOut{}
	members := []string{"", "m", "n"}
	seenV := map[string]bool{}
	addV := func(kind, what, state string, c core.Call, detail string) {
		if seenV[kind+what] {
			return
		}
		seenV[kind+what] = true
		out.Viol = append(out.Viol, eng.Violation{Prop: "C06", Kind: kind, What: what, Atoms: []string{what}, Tags: []string{"ds/set"},
			Detail: []string{"state " + state, "call " + c.String(), detail}, Extra: map[string]interface{}{"profile": "struct"}})
	}
	type st struct{ k, j int } // bit masks; -1 = key absent
	var states []st
	for k := -1; k < 8; k++ {
		for jj := -1; jj < 8; jj++ {
			states = append(states, st{k, jj})
		}
	}
	build := func(s st) (*set.Set, *core.State) {
		ss := set.New()
		m := core.NewState()
		m.Set["b"] = map[string]map[string]bool{}
		for key, mask := range map[string]int{"k": s.k, "j": s.j} {
			if mask < 0 {
				continue
			}
			ss.M[key] = map[string]struct{}{}
			m.Set["b"][key] = map[string]bool{}
			for i, mem := range members {
				if mask&(1<<uint(i)) != 0 {
					ss.M[key][mem] = struct{}{}
					m.Set["b"][key][mem] = true
				}
			}
		}
		return ss, m
	}
	render := func(ss *set.Set) string {
		var parts []string
		for _, key := range []string{"j", "k"} {
			if mm, ok := ss.M[key]; ok {
				var ms []string
				for x := range mm {
					ms = append(ms, x)
				}
				sort.Strings(ms)
				parts = append(parts, fmt.Sprintf("%s=%q", key, ms))
			}
		}
		return strings.Join(parts, " ")
	}
	exec := func(ss *set.Set, c core.Call) (r core.Res) {
		defer func() {
			if p := recover(); p != nil {
				r = core.Res{Err: true, Panic: fmt.Sprintf("%s: %v", c.F, p)}
			}
		}()
		bs := func(vs []string) [][]byte {
			o := make([][]byte, len(vs))
			for i, v := range vs {
				o[i] = []byte(v)
			}
			return o
		}
		e := func(err error) core.Res {
			if err != nil {
				return core.Res{Err: true, Msg: err.Error()}
			}
			return core.Res{}
		}
		lst := func(l [][]byte, err error) core.Res {
			if err != nil {
				return core.Res{Err: true, Msg: err.Error()}
			}
			items := make([]string, len(l))
			for i, b := range l {
				items[i] = qs(string(b))
			}
			sort.Strings(items)
			return core.Res{Val: "[" + strings.Join(items, ",") + "]"}
		}
		switch c.F {
		case "SAdd":
			return e(ss.SAdd(c.K, bs(c.Vs)...))
		case "SRem":
			return e(ss.SRem(c.K, bs(c.Vs)...))
		case "SPop":
			it := ss.SPop(c.K)
			if it == nil {
				return core.Res{Val: "nil"}
			}
			return core.Res{Val: qs(string(it))}
		case "SIsMember":
			return core.Res{Val: strconv.FormatBool(ss.SIsMember(c.K, []byte(c.V)))}
		case "SAreMembers":
			b, err := ss.SAreMembers(c.K, bs(c.Vs)...)
			if err != nil {
				return core.Res{Err: true, Msg: err.Error()}
			}
			return core.Res{Val: strconv.FormatBool(b)}
		case "SMembers":
			return lst(ss.SMembers(c.K))
		case "SCard":
			return core.Res{Val: strconv.Itoa(ss.SCard(c.K))}
		case "SHasKey":
			return core.Res{Val: strconv.FormatBool(ss.SHasKey(c.K))}
		case "SDiffByOneBucket":
			return lst(ss.SDiff(c.K, c.K2))
		case "SUnionByOneBucket":
			return lst(ss.SUnion(c.K, c.K2))
		}
		panic("setExec " + c.F)
	}
	var calls []core.Call
	for _, key := range []string{"k", "j", "q"} {
		for _, mem := range members {
			calls = append(calls, core.Call{F: "SAdd", K: key, Vs: []string{mem}}, core.Call{F: "SRem", K: key, Vs: []string{mem}},
				core.Call{F: "SIsMember", K: key, V: mem}, core.Call{F: "SAreMembers", K: key, Vs: []string{mem, "m"}})
		}
		calls = append(calls, core.Call{F: "SAdd", K: key, Vs: []string{"m", "m", "n"}}, core.Call{F: "SRem", K: key, Vs: []string{"m", "zz"}},
			core.Call{F: "SPop", K: key}, core.Call{F: "SMembers", K: key}, core.Call{F: "SCard", K: key}, core.Call{F: "SHasKey", K: key})
		for _, k2 := range []string{"k", "j", "q"} {
			calls = append(calls, core.Call{F: "SDiffByOneBucket", K: key, K2: k2}, core.Call{F: "SUnionByOneBucket", K: key, K2: k2})
		}
	}
	for _, s := range states {
		for _, c := range calls {
			c.B = "b"
			ss, m := build(s)
			before := render(ss)
			r := exec(ss, c)
			exp := m.Eval(c, r)
			out.Transitions++
			out.Queries++
			if r.Panic != "" {
				addV("panic", c.F+":panic", before, c, r.Panic)
				continue
			}
			if msg := exp.Check(r); msg != "" {
				addV("call-result", c.F+":"+exp.Symptom(r), before, c, msg)
				continue
			}
			// contents afterwards (empty sets and absent keys are the same logical contents)
			for _, key := range []string{"k", "j", "q"} {
				var got []string
				for x := range ss.M[key] {
					got = append(got, x)
				}
				sort.Strings(got)
				var want []string
				for x := range m.Set["b"][key] {
					want = append(want, x)
				}
				sort.Strings(want)
				if fmt.Sprintf("%q", got) != fmt.Sprintf("%q", want) {
					addV("state-after", c.F+":contents", before, c, fmt.Sprintf("set %s is %q, model %q", key, got, want))
				}
			}
		}
		if s.k > 0 {
			out.Nontrivial++
		}
	}
	out.States = len(states)
	out.Closed = true
	out.Sample = fmt.Sprintf("each of the %d states (two keys, every subset of members %q, key absent or present) x %d calls", len(states), members, len(calls))
	return out
}

// ---- sorted sets

type zm struct {
	key   string
	score float64
	level int
}

func zsetClosure(arg json.RawMessage) interface{} {
	var j structJob
	json.Unmarshal(arg, &j)
	out := &structOut{}
	members := []string{"", "a", "b"}
	if j.Big {
		members = []string{"", "a", "b", "c"}
	}
	scores := []float64{-1, 0, 1}
	levels := []int{1, 2, 3}
	seenV := map[string]bool{}
	addV := func(kind, what, state string, c string, detail string) {
		if seenV[kind+what] {
			return
		}
		seenV[kind+what] = true
		out.Viol = append(out.Viol, eng.Violation{Prop: "C07", Kind: kind, What: what, Atoms: []string{what}, Tags: []string{"ds/zset"},
			Detail: []string{"state (key score level...) " + state, "call " + c, detail}, Extra: map[string]interface{}{"profile": "struct"}})
	}
	type op struct {
		kind  string // put | remove | popmin | popmax | remrank
		key   string
		score float64
		level int
		i, j  int
	}
	apply := func(ss *zset.SortedSet, m *core.State, o op) {
		switch o.kind {
		case "put":
			core.Levels = []int{o.level}
			ss.Put(o.key, zset.SCORE(o.score), []byte("v"+o.key))
			core.Levels = nil
			m.Eval(core.Call{F: "ZAdd", B: "z", K: o.key, X: o.score, V: "v" + o.key}, core.Res{})
		case "remove":
			ss.Remove(o.key)
			m.Eval(core.Call{F: "ZRem", B: "z", K: o.key}, core.Res{})
		case "popmin":
			ss.PopMin()
			m.Eval(core.Call{F: "ZPopMin", B: "z"}, core.Res{})
		case "popmax":
			ss.PopMax()
			m.Eval(core.Call{F: "ZPopMax", B: "z"}, core.Res{})
		case "remrank":
			ss.GetByRankRange(o.i, o.j, true)
			m.Eval(core.Call{F: "ZRemRangeByRank", B: "z", I: o.i, J: o.j}, core.Res{})
		}
	}
	build := func(path []op) (*zset.SortedSet, *core.State) {
		ss := zset.New()
		m := core.NewState()
		for _, o := range path {
			apply(ss, m, o)
		}
		return ss, m
	}
	canon := func(ss *zset.SortedSet) string { return ss.VerifDump() }
	fmtN := func(n *zset.SortedSetNode) string {
		if n == nil {
			return "nil"
		}
		return qs(n.Key()) + ":" + strconv.FormatFloat(float64(n.Score()), 'g', -1, 64) + ":" + qs(string(n.Value))
	}
	fmtNs := func(ss *zset.SortedSet, ns []*zset.SortedSetNode, stS, call string) string {
		items := make([]string, len(ns))
		for i, n := range ns {
			items[i] = fmtN(n)
			if !ss.VerifIsMember(n) {
				addV("non-member-returned", strings.SplitN(call, "(", 2)[0]+":non-member", stS, call, "returned node "+fmtN(n)+" is not a member (pointer-identical Dict value)")
			}
		}
		return "[" + strings.Join(items, ",") + "]"
	}
	// the operations that change the state
	var muts []op
	for _, k := range members {
		for _, sc := range scores {
			for _, lv := range levels {
				muts = append(muts, op{kind: "put", key: k, score: sc, level: lv})
			}
		}
		muts = append(muts, op{kind: "remove", key: k})
	}
	muts = append(muts, op{kind: "popmin"}, op{kind: "popmax"})
	nmax := len(members)
	for a := 1; a <= nmax; a++ {
		for b := 1; b <= nmax; b++ {
			muts = append(muts, op{kind: "remrank", i: a, j: b}, op{kind: "remrank", i: -a, j: -b})
		}
	}
	bounds := []float64{-2, -1, -0.5, 0, 1, 2}
	seen := map[string]bool{}
	type node struct{ path []op }
	frontier := []node{{}}
	ss0, _ := build(nil)
	seen[canon(ss0)] = true
	checkState := func(path []op) {
		ss, m := build(path)
		stS := canon(ss)
		if msg := ss.VerifCheck(); msg != "" {
			addV("invariant", "skiplist:"+strings.Fields(msg)[0], stS, "(structural invariant)", msg)
			return
		}
		n := len(m.ZSet["z"])
		if n > 0 {
			out.Nontrivial++
		}
		q := func(c core.Call, r core.Res) {
			c.B = "z"
			out.Queries++
			exp := m.Clone().Eval(c, r)
			if msg := exp.Check(r); msg != "" {
				addV("query", c.F+":"+exp.Symptom(r), stS, c.String(), msg)
			}
		}
		rec := func(c core.Call, f func() core.Res) {
			var r core.Res
			func() {
				defer func() {
					if p := recover(); p != nil {
						r = core.Res{Err: true, Panic: fmt.Sprint(p)}
					}
				}()
				r = f()
			}()
			if r.Panic != "" {
				addV("panic", c.F+":panic", stS, c.String(), r.Panic)
				return
			}
			q(c, r)
		}
		for _, s := range bounds {
			for _, e := range bounds {
				for _, xs := range []bool{false, true} {
					for _, xe := range []bool{false, true} {
						for _, lim := range []int{0, 1, 2} {
							c := core.Call{F: "ZRangeByScore", X: s, Y: e, Z: &core.ZOpt{Limit: lim, ExcludeStart: xs, ExcludeEnd: xe}}
							rec(c, func() core.Res {
								ns := ss.GetByScoreRange(zset.SCORE(s), zset.SCORE(e), &zset.GetByScoreRangeOptions{Limit: lim, ExcludeStart: xs, ExcludeEnd: xe})
								return core.Res{Val: fmtNs(ss, ns, stS, c.String())}
							})
						}
					}
				}
			}
		}
		for a := -6; a <= 6; a++ {
			for b := -6; b <= 6; b++ {
				c := core.Call{F: "ZRangeByRank", I: a, J: b}
				rec(c, func() core.Res { return core.Res{Val: fmtNs(ss, ss.GetByRankRange(a, b, false), stS, c.String())} })
			}
		}
		for _, k := range append(append([]string{}, members...), "zz") {
			k := k
			rec(core.Call{F: "ZRank", K: k}, func() core.Res { return core.Res{Val: strconv.Itoa(ss.FindRank(k))} })
			rec(core.Call{F: "ZRevRank", K: k}, func() core.Res { return core.Res{Val: strconv.Itoa(ss.FindRevRank(k))} })
			rec(core.Call{F: "ZGetByKey", K: k}, func() core.Res {
				nd := ss.GetByKey(k)
				if nd == nil {
					return core.Res{Err: true, Msg: "nil"}
				}
				return core.Res{Val: fmtN(nd)}
			})
		}
		rec(core.Call{F: "ZPeekMin"}, func() core.Res { return core.Res{Val: fmtN(ss.PeekMin())} })
		rec(core.Call{F: "ZPeekMax"}, func() core.Res { return core.Res{Val: fmtN(ss.PeekMax())} })
		rec(core.Call{F: "ZCard"}, func() core.Res { return core.Res{Val: strconv.Itoa(ss.Size())} })
		// contents: level-0 chain equals the model order
		ns := ss.GetByRankRange(1, -1, false)
		if n > 0 {
			want := m.Clone().Eval(core.Call{F: "ZRangeByRank", B: "z", I: 1, J: -1}, core.Res{})
			got := fmtNs(ss, ns, stS, "GetByRankRange(1,-1)")
			if got != want.Val {
				addV("state", "chain-order", stS, "GetByRankRange(1,-1)", "chain "+got+", model "+want.Val)
			}
		}
	}
	checkState(nil)
	out.States = 1
	maxPath := 2*len(members) + 1 // every state of a correct skip list is reached well before
	depth := 0
	for len(frontier) > 0 {
		depth++
		if depth > maxPath || len(out.Viol) > 0 && depth > len(members)+2 {
			// a broken structure can have an unbounded state space (spans drifting): stop at the bound
			break
		}
		var next []node
		for _, nd := range frontier {
			for _, o := range muts {
				path := append(append([]op(nil), nd.path...), o)
				var ss *zset.SortedSet
				var mdl *core.State
				pan := ""
				func() {
					defer func() {
						if p := recover(); p != nil {
							pan = fmt.Sprint(p)
						}
					}()
					ss, mdl = build(path)
				}()
				out.Transitions++
				if pan != "" {
					addV("panic", o.kind+":panic", fmt.Sprint(nd.path), fmt.Sprintf("%+v", o), pan)
					continue
				}
				// every transition, also one that leads to a state seen before (a mutator that must
				// change the contents and does not, or must not and does): contents vs the model
				{
					var items []string
					for _, n := range ss.GetByRankRange(1, -1, false) {
						items = append(items, fmtN(n))
					}
					got := "[" + strings.Join(items, ",") + "]"
					want := "[]"
					if len(mdl.ZSet["z"]) > 0 {
						want = mdl.Clone().Eval(core.Call{F: "ZRangeByRank", B: "z", I: 1, J: -1}, core.Res{}).Val
					}
					if got != want {
						addV("transition", o.kind+":wrong-items", fmt.Sprint(nd.path), fmt.Sprintf("%+v", o), "contents after the op "+got+", model "+want)
						continue
					}
				}
				k := canon(ss)
				if seen[k] {
					continue
				}
				seen[k] = true
				out.States++
				checkState(path)
				next = append(next, node{path})
			}
		}
		frontier = next
	}
	out.Closed = len(frontier) == 0
	out.Sample = fmt.Sprintf("members %q x scores %v x skip-list levels %v: every reachable (score,key,level) layout; in each: all GetByScoreRange bounds %v x exclude flags x limits, GetByRankRange -6..6, ranks, peeks, structural invariants", members, scores, levels, bounds)
	return out
}

func runStruct(r *Run, what string, big bool) {
	raw, ok := r.Pool.Custom("struct-"+what, structJob{What: what, Big: big})
	var o structOut
	if !ok || json.Unmarshal(raw, &o) != nil {
		// the exploration of the structure hung or killed its worker: that is a violation (a call
		// that does not return), not a cap
		prop := map[string]string{"list": "C05", "set": "C06", "zset": "C07"}[what]
		r.Col.Add(eng.Violation{Prop: prop, Kind: "hang", What: "ds/" + what + ":closure-hang", Atoms: []string{"ds/" + what + ":closure-hang"},
			Detail: []string{"the structure-level exploration of ds/" + what + " did not finish within its 600 s watchdog or killed its worker"}, Extra: map[string]interface{}{"profile": "struct"}})
		r.Stats.Exhaustive = false
		r.Stats.CapsHit = append(r.Stats.CapsHit, "structure closure "+what+": worker died")
		return
	}
	if !o.Closed {
		r.Stats.Exhaustive = false
		r.Stats.CapsHit = append(r.Stats.CapsHit, "structure closure "+what+": path-length bound reached before closure")
	}
	r.Stats.Transitions += o.Transitions
	r.Stats.Evals += o.Queries
	for k := 0; k < o.States; k++ {
		r.Stats.States[fmt.Sprintf("ds/%s#%d", what, k)] = true
	}
	for k := 0; k < o.Nontrivial; k++ {
		r.Stats.Nontrivial[fmt.Sprintf("ds/%s#%d", what, k)] = true
	}
	r.Stats.Extra["structure_states"] += o.States
	r.Stats.Extra["structure_transitions"] += o.Transitions
	r.Extra["structure_closure_reached"] = o.Closed
	r.Stats.Samples = append(r.Stats.Samples, "ds/"+what+": "+o.Sample)
	for _, v := range o.Viol {
		r.Col.Add(v)
	}
}

func init() {
	customHandlers["struct-list"] = listClosure
	customHandlers["struct-set"] = setClosure
	customHandlers["struct-zset"] = zsetClosure
}

// ZDebug is a debugging aid: remove a low node in front of a tall one and dump the skip list.
func ZDebug() string {
	ss := zset.New()
	core.Levels = []int{1}
	ss.Put("a", -1, []byte("va"))
	core.Levels = []int{2}
	ss.Put("b", 0, []byte("vb"))
	core.Levels = nil
	d1 := ss.VerifDump()
	ss.Remove("a")
	return d1 + "\n" + ss.VerifDump() + "\ncheck: " + ss.VerifCheck() + fmt.Sprint(" rank(b)=", ss.FindRank("b"))
}
