package checks

import (
	"fmt"
	"strings"

	"verif/mc/core"
	"verif/mc/eng"
)

// ---------------------------------------------------------------- C02: sparse-mode KV reads

func c02Profile(tier string) *eng.Profile {
	keys := []string{"a", "b", "c", "d"}
	var ops []core.Op
	for _, k := range keys {
		ops = append(ops,
			up(core.Call{F: "Put", B: "b", K: k, V: ""}),
			up(core.Call{F: "Put", B: "b", K: k, V: "x"}),
			up(core.Call{F: "PutTS", B: "b", K: k, V: "t", TTL: 5, TS: -4}),
			up(core.Call{F: "Delete", B: "b", K: k}),
		)
	}
	ops = append(ops, core.Op{Kind: "tick"}, core.Op{Kind: "reopen"},
		up(core.Call{F: "Put", B: "b", K: "a", V: "m"}, core.Call{F: "Put", B: "b", K: "d", V: "n"}),
		up(core.Call{F: "Put", B: "b", K: "b", V: "m"}, core.Call{F: "Delete", B: "b", K: "c"}),
		// three records of one transaction: with three records per segment the middle one is neither
		// at offset 0 nor the record carrying the commit mark
		up(core.Call{F: "Put", B: "b", K: "a", V: "p"}, core.Call{F: "Put", B: "b", K: "c", V: "q"}, core.Call{F: "Put", B: "b", K: "d", V: "r"}),
		up(core.Call{F: "PutTS", B: "b", K: "b", V: "f", TTL: 2, TS: 3}))
	p := &eng.Profile{ID: "C02", Name: "sparse",
		// seg=100: two records per segment; seg=150: three, so that a sealed segment's key range can
		// strictly contain a scanned range that still holds one of its keys
		Cfgs: append(cfgs([]int{core.S}, []int{core.F, core.M}, []int64{100}), core.Cfg{Mode: core.S, Seg: 150}),
		Ops:  func(core.Cfg) []core.Op { return ops },
		Obs: func(core.Cfg) []core.Call {
			return kvObs([]string{"b", "zz"}, []string{"a", "b", "c", "d", "zz"},
				[]string{"", "a", "b", "bb", "c", "d", "e"}, []string{"", "a", "b", "c", "d", "e"}, false)
		},
		Depth: 3,
		Judge: func(c *eng.Ctx) { dirFeatures(c); sparseFeatures(c); eng.JudgeModel(c, "C02") },
	}
	if tier == "thorough" {
		p.Depth = 4
	}
	return p
}

// c02ManyFilesProfile: one record per segment, up to 24 segments (two-digit file ids), restarts in
// between, judged against the model in sparse mode.
func c02ManyFilesProfile(tier string) *eng.Profile {
	mf := c08ManyFilesProfile(tier)
	mf.ID, mf.Name = "C02", "sparse-many-files"
	mf.Cfgs = []core.Cfg{{Mode: core.S, Seg: 50}, {Mode: core.S, RW: core.M, Start: core.M, Seg: 50}}
	mf.ReopenLeaf = false
	mf.Judge = func(c *eng.Ctx) { dirFeatures(c); eng.JudgeModel(c, "C02") }
	return mf
}

func sparseFeatures(c *eng.Ctx) {
	if strings.Contains(core.DirText(c.Inst.Dir), ".bptidx") {
		c.Feature("sealed-segment-index")
	}
}

// ---------------------------------------------------------------- C03: paginated scans

func c03Profile(tier string) *eng.Profile {
	return c03ProfileFor(tier, "paging", []string{"a", "aa", "ab", "b"}, []string{"", "a", "b"}, false)
}

// c03BytesProfile: keys and prefixes made of the extreme byte values (0xff, 0x00), where "the
// keys with this prefix" cannot be computed by bumping the last byte of the prefix.
func c03BytesProfile(tier string) *eng.Profile {
	return c03ProfileFor(tier, "paging-bytes", []string{`a\xff`, `a\xff\x00`, `\xff`, `\xff\xff`}, []string{`a\xff`, `\xff`, `a`}, true)
}

func c03ProfileFor(tier, name string, keys, prefixes []string, esc bool) *eng.Profile {
	var ops []core.Op
	for _, k := range keys {
		ops = append(ops,
			up(core.Call{F: "Put", B: "b", K: k, V: "x", Esc: esc}),
			up(core.Call{F: "PutTS", B: "b", K: k, V: "t", TTL: 5, TS: -4, Esc: esc}),
			up(core.Call{F: "Delete", B: "b", K: k, Esc: esc}),
		)
	}
	ops = append(ops, core.Op{Kind: "tick"}, core.Op{Kind: "reopen"}, core.Op{Kind: "merge"}) // Merge is refused in sparse mode
	var qs []core.Call
	n := len(keys)
	for _, pre := range prefixes {
		for off := 0; off <= n+1; off++ {
			for lim := 1; lim <= n+1; lim++ {
				qs = append(qs, core.Call{F: "PrefixScan", B: "b", K: pre, I: off, J: lim, Esc: esc})
			}
		}
		for _, re := range []string{".*", "a$"} {
			for lim := 1; lim <= n+1; lim++ {
				qs = append(qs, core.Call{F: "PrefixSearchScan", B: "b", K: pre, Re: re, I: 0, J: lim, Esc: esc})
			}
		}
		// outside the statement (limit 0): only "ascending live prefixed keys" is checked
		qs = append(qs, core.Call{F: "PrefixScan", B: "b", K: pre, I: 0, J: 0, Esc: esc})
	}
	p := &eng.Profile{ID: "C03", Name: name,
		Cfgs:  []core.Cfg{{Mode: core.KV, Seg: 100}, {Mode: core.K, Seg: 100}, {Mode: core.S, Seg: 100}},
		Ops:   func(core.Cfg) []core.Op { return ops },
		Obs:   func(core.Cfg) []core.Call { return qs },
		Depth: 3,
		Judge: func(c *eng.Ctx) {
			dirFeatures(c)
			// a dead (deleted or expired) key that sorts before a live one
			ks := c.Inst.Model.Canon()
			if strings.Contains(ks, "kv ") {
				for _, o := range c.Ops {
					if o.Kind == "tick" || (len(o.Calls) > 0 && o.Calls[0].F == "Delete") {
						c.Feature("dead-key-among-live")
						break
					}
				}
			}
			eng.JudgeModel(c, "C03")
		},
	}
	if tier == "thorough" {
		p.Depth = 4
	}
	return p
}

// ---------------------------------------------------------------- C04: bucket isolation

func structOf(f string) string {
	switch {
	case strings.HasPrefix(f, "Z"):
		return "zset"
	case strings.HasPrefix(f, "S"):
		return "set"
	case strings.HasPrefix(f, "L"), strings.HasPrefix(f, "R"):
		if f == "RangeScan" {
			return "kv"
		}
		return "list"
	}
	return "kv"
}

func c04Profile(tier string) *eng.Profile {
	buckets := []string{"", "a", "ab", "b"}
	keys := []string{"b", "bc", "c"}
	opsFor := func(cfg core.Cfg) []core.Op {
		var ops []core.Op
		for _, b := range buckets {
			for _, k := range keys {
				ops = append(ops, up(core.Call{F: "Put", B: b, K: k, V: "v" + b}))
			}
			ops = append(ops, up(core.Call{F: "Delete", B: b, K: "b"}), up(core.Call{F: "Delete", B: b, K: "bc"}))
		}
		if cfg.Mode == core.KV {
			for _, b := range buckets {
				ops = append(ops,
					up(core.Call{F: "RPush", B: b, K: "b", Vs: []string{"l" + b}}),
					up(core.Call{F: "LPop", B: b, K: "b"}),
					up(core.Call{F: "SAdd", B: b, K: "b", Vs: []string{"s" + b}}),
					up(core.Call{F: "SRem", B: b, K: "b", Vs: []string{"s" + b}}),
					up(core.Call{F: "ZAdd", B: b, K: "b", X: float64(len(b)), V: "z" + b}),
					up(core.Call{F: "ZRem", B: b, K: "b"}),
				)
			}
		}
		// one transaction writing the SAME key in two buckets (and a put in one with a delete in the
		// other): consecutive pending writes that differ in the bucket only
		for _, pr := range [][2]string{{"a", "ab"}, {"ab", "a"}, {"", "b"}, {"b", "a"}} {
			ops = append(ops,
				up(core.Call{F: "Put", B: pr[0], K: "b", V: "t" + pr[0]}, core.Call{F: "Put", B: pr[1], K: "b", V: "t" + pr[1]}),
				up(core.Call{F: "Put", B: pr[0], K: "c", V: "u" + pr[0]}, core.Call{F: "Delete", B: pr[1], K: "c"}),
			)
		}
		if cfg.Mode != core.S {
			ops = append(ops, core.Op{Kind: "merge"})
		}
		ops = append(ops, core.Op{Kind: "reopen"})
		return ops
	}
	obsFor := func(cfg core.Cfg) []core.Call {
		var qs []core.Call
		for _, b := range buckets {
			for _, k := range keys {
				qs = append(qs, core.Call{F: "Get", B: b, K: k})
			}
			qs = append(qs, core.Call{F: "GetAll", B: b}, core.Call{F: "RangeScan", B: b, K: "", K2: "z"},
				core.Call{F: "PrefixScan", B: b, K: "", I: 0, J: -1}, core.Call{F: "PrefixScan", B: b, K: "b", I: 0, J: 100})
			if cfg.Mode == core.KV {
				qs = append(qs, core.Call{F: "LRange", B: b, K: "b", I: 0, J: -1}, core.Call{F: "SMembers", B: b, K: "b"},
					core.Call{F: "ZMembers", B: b}, core.Call{F: "ZRangeByRank", B: b, I: 1, J: -1})
			}
		}
		return qs
	}
	p := &eng.Profile{ID: "C04", Name: "isolation",
		Cfgs:      []core.Cfg{{Mode: core.KV, Seg: 100}, {Mode: core.K, Seg: 100}, {Mode: core.S, Seg: 100}, {Mode: core.S, RW: core.M, Start: core.M, Seg: 100}},
		Ops:       opsFor,
		Obs:       obsFor,
		Depth:     3,
		ObsBefore: true,
		Judge: func(c *eng.Ctx) {
			dirFeatures(c)
			last := c.Ops[len(c.Ops)-1]
			// oracle 1 (no model): a write to bucket A leaves every read of another bucket, and of
			// another structure of A, unchanged
			if (len(last.Calls) > 0 || last.Kind == "merge") && c.ObsPrev != nil && c.Obs != nil {
				written := map[string]bool{}
				wb, ws := "", ""
				for _, cl := range last.Calls {
					written[cl.B+"\x00"+structOf(cl.F)] = true
					wb, ws = cl.B, structOf(cl.F)
				}
				for i, q := range c.Queries {
					if written[q.B+"\x00"+structOf(q.F)] {
						continue
					}
					if last.Kind == "merge" && structOf(q.F) == "list" {
						continue // Merge does not preserve lists: recorded under C15, not a namespace matter
					}
					if c.ObsPrev[i].String() != c.Obs[i].String() {
						c.Add("C04", "interference", q.F, fmt.Sprintf("%s wrote bucket %q (%s) and changed %s: %s before, %s after", last, wb, ws, q, c.ObsPrev[i], c.Obs[i]))
						return
					}
				}
				c.Feature("noninterference-checked")
			}
			// oracle 2: per-bucket models
			eng.JudgeModel(c, "C04")
		},
	}
	if tier == "thorough" {
		p.Depth = 4
	}
	return p
}

func init() {
	profileBuilders = append(profileBuilders, func(tier string) {
		Register(c02Profile(tier))
		Register(c02ManyFilesProfile(tier))
		Register(c03Profile(tier))
		Register(c03BytesProfile(tier))
		Register(c04Profile(tier))
	})
	Registry["C02"] = func(r *Run) {
		r.Rule = "every sequence of <=depth ops over the sparse-mode KV alphabet (1 bucket x 4 keys x {put '',put x,put TTL,delete}, tick, reopen, 2 two-call transactions) with seg=100 (two records per segment, so most keys live in sealed segments reached through the on-disk index files); every Get/GetAll/RangeScan/PrefixScan of the grid vs the ordered-map model; non-trivial = model states where some read returns data and some fails; plus long deterministic families (6..14, thorough 24, single-put transactions in ascending/descending/zig-zag key order, 8-13 per segment so that the on-disk key tree and transaction-id tree have inner nodes, overwrites and deletes in later segments, reopen) judged after every step"
		r.Assume = []string{"single bucket (ambiguous bucket+key concatenations are C04's)", "bytes outside the alphabet not covered"}
		r.Required = []string{"rotated", "tick", "reopen", "delete", "sealed-segment-index"}
		r.Explore(c02Profile(r.Tier))
		// many transactions per segment: inner nodes in the on-disk key tree and transaction-id tree
		runKVLong(r, "C02", []core.Cfg{{Mode: core.S, Seg: 392}, {Mode: core.S, Seg: 600}, {Mode: core.S, RW: core.M, Start: core.M, Seg: 410}})
		runValues(r, "C02", false, []int{core.S})
		r.Explore(c01BytesProfile(r.Tier, "C02"))
		r.Explore(c02ManyFilesProfile(r.Tier))
	}
	Registry["C03"] = func(r *Run) {
		r.Rule = "every sequence of <=depth ops over {put,expiring put,delete} x 4 prefixed keys + tick + reopen in KV, key-only and sparse mode; in every reached state every PrefixScan(prefix,offset,limit) with offset 0..n+1, limit 1..n+1 and every PrefixSearchScan(prefix,re,0,limit) is compared with 'live prefixed keys, skip offset, take limit'; the same over keys and prefixes made of the extreme byte values (a\\xff, a\\xff\\x00, \\xff, \\xff\\xff)"
		r.Assume = []string{"limit=0 and the returned offset value are outside the statement and only checked for 'ascending live prefixed keys'"}
		r.Required = []string{"tick", "reopen", "delete", "dead-key-among-live"}
		r.Explore(c03Profile(r.Tier))
		r.Explore(c03BytesProfile(r.Tier))
	}
	Registry["C04"] = func(r *Run) {
		r.Rule = "every sequence of <=depth ops writing 4 adversarially named buckets ('', 'a', 'ab', 'b' with keys 'b','bc','c': coinciding bucket+key concatenations) for KV, list, set and sorted set; oracle 1: a write to bucket A leaves all reads of other buckets and other structures unchanged (observation before vs after the op); oracle 2: per-bucket reference models; plus ambiguity families: the SAME value / member / element under (bucket,key) pairs with coinciding concatenations in every structure, rotated, merged, reopened, removed from one side, merged and reopened again, judged against the model after every step"
		r.Assume = []string{"list/set/zset ops only in HintKeyValAndRAMIdxMode (the mode that supports them)"}
		r.Required = []string{"reopen", "noninterference-checked"}
		r.Explore(c04Profile(r.Tier))
		runC04Amb(r)
	}
}
