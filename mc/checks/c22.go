package checks

import (
	"fmt"
	"os"

	"verif/mc/core"
	"verif/mc/eng"
)

// C22: opening with an incompatible index mode is refused (and leaves the directory unchanged);
// switching between the two RAM modes on KV data succeeds and shows the same contents.
// Enumerated directly: creator mode x directory state x reopen mode x RWMode.
func init() {
	Registry["C22"] = func(r *Run) {
		r.Rule = "every (directory name in {plain, [1], -[a-c], *x?, ' sp.', \\b}, creator index mode, directory state, reopen index mode, RWMode): states = empty directory, freshly opened and closed, written (1 segment), written (3 segments), merged (RAM modes), every process-crash image of a 2-transaction workload (thorough); sparse<->RAM on a directory holding records must return an error and leave every file byte-identical; KeyVal<->Key on KV data must open and give the same observation; on directories without records only 'no panic, and if Open succeeds the contents are empty' is checked"
		r.Assume = []string{"KV data only (list/set/zset are documented for HintKeyValAndRAMIdxMode only)"}
		queries := kvObs([]string{bKV, "zz"}, []string{"a", "ab", "c", "zz"}, []string{"", "a", "b", "z"}, []string{"", "a"}, false)
		type dstate struct {
			name    string
			ops     []core.Op
			noOpen  bool
			hasData bool
		}
		w := func(k, v string) core.Op { return up(core.Call{F: "Put", B: bKV, K: k, V: v}) }
		states := []dstate{
			{name: "empty-dir", noOpen: true},
			{name: "fresh", ops: nil},
			{name: "one-segment", ops: []core.Op{w("a", "x")}, hasData: true},
			{name: "three-segments", ops: []core.Op{w("a", "x"), w("ab", "y"), w("c", "z"), w("a", "x2"), w("ab", "y2")}, hasData: true},
			{name: "merged", ops: []core.Op{w("a", "x"), w("ab", "y"), w("c", "z"), w("a", "x2"), {Kind: "merge"}}, hasData: true},
		}
		n := 0
		defer func() { core.DirSuffix = "" }()
		// the directory NAME is a dimension too: glob metacharacters, a space, a trailing dot
		for _, suffix := range []string{"", "[1]", "-[a-c]", "*x?", " sp.", "\\b"} {
			core.DirSuffix = suffix
			for _, creator := range []int{core.KV, core.K, core.S} {
				for _, rw := range []int{core.F, core.M} {
					for _, st := range states {
						if st.name == "merged" && creator == core.S {
							continue
						}
						for _, reopen := range []int{core.KV, core.K, core.S} {
							ccfg := core.Cfg{Mode: creator, RW: rw, Start: rw, Seg: 100}
							rcfg := core.Cfg{Mode: reopen, RW: rw, Start: rw, Seg: 100}
							in := core.OpenInst(ccfg)
							var ops []core.Op
							if st.noOpen {
								in.CloseOnly()
								os.RemoveAll(in.Dir)
								os.MkdirAll(in.Dir, 0755)
							} else {
								for _, op := range st.ops {
									in.Apply(op)
									ops = append(ops, op)
								}
							}
							var before []core.Res
							if in.DB != nil {
								before, _ = in.Observe(queries)
								in.CloseOnly()
							}
							textBefore := core.DirText(in.Dir)
							n++
							what := fmt.Sprintf("%s->%s", modeName(creator), modeName(reopen))
							add := func(kind, detail string) {
								var tags []string
								if suffix != "" {
									tags = []string{"dirname"}
								}
								r.Col.Add(eng.Violation{Prop: "C22", Kind: kind, Cfg: rcfg, Ops: ops, What: what + ":" + st.name, Atoms: []string{what + ":" + st.name}, Tags: tags,
									Detail: []string{fmt.Sprintf("directory %q (name suffix %q) created in %s, reopened in %s", st.name, suffix, ccfg, rcfg), detail}, Extra: map[string]interface{}{"profile": "c22", "dir_suffix": suffix}})
							}
							in2 := core.OpenDir(rcfg, in.Dir, in.Model)
							sparseMix := (creator == core.S) != (reopen == core.S)
							key := fmt.Sprintf("%s/%s/%s/%d/%s", modeName(creator), st.name, modeName(reopen), rw, suffix)
							r.Stats.States[key] = true
							r.Stats.Transitions++
							switch {
							case in2.Poisoned != "":
								add("panic", in2.Poisoned)
							case sparseMix && st.hasData:
								r.Stats.Nontrivial[key] = true
								if in2.OpenErr == nil {
									add("not-refused", "Open returned nil")
									in2.CloseOnly()
								} else if after := core.DirText(in.Dir); after != textBefore {
									add("refused-but-directory-changed", "before:\n"+textBefore+"after:\n"+after)
								}
								r.Stats.Outcomes["refused"] = true
							case !sparseMix && st.hasData:
								r.Stats.Nontrivial[key] = true
								if in2.OpenErr != nil {
									add("compatible-open-failed", in2.OpenErr.Error())
								} else {
									after, _ := in2.Observe(queries)
									r.Stats.Evals += len(after)
									if d := core.DiffObs(queries, before, after); len(d) > 0 {
										add("contents-differ", d[0].String())
									}
									in2.CloseOnly()
								}
								r.Stats.Outcomes["same-contents"] = true
							default:
								// no record in the directory: the statement is silent; if Open succeeds the
								// contents must be empty
								if in2.OpenErr == nil {
									obs, _ := in2.Observe(queries)
									for i, o := range obs {
										if !o.Err && o.Val != "[]" {
											add("phantom-contents", queries[i].String()+" returned "+o.String())
											break
										}
									}
									in2.CloseOnly()
								}
								r.Stats.Outcomes["no-data"] = true
							}
							os.RemoveAll(in.Dir)
						}
					}
				}
			}
		}
		r.Stats.Extra["cases"] = n
		r.Stats.DepthDone = 1
		r.Stats.Samples = append(r.Stats.Samples, "directory 'three-segments' created in S/F/F/nosync/seg100 reopened in KV mode: Open must fail and every file stay byte-identical",
			"directory 'merged' created in KV mode reopened in K mode: Open must succeed and show the same observation")
	}
}
