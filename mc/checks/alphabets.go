package checks

import (
	"verif/mc/core"
)

func up(calls ...core.Call) core.Op { return core.Op{Kind: "update", Calls: calls} }

func upIgn(calls ...core.Call) core.Op { return core.Op{Kind: "update", Calls: calls, IgnoreErr: true} }

// Mixed alphabet: one bucket per structure ("kv", "l", "s"/"t", "z").
const (
	bKV = "kv"
	bL  = "l"
	bS  = "s"
	bT  = "t"
	bZ  = "z"
)

func mixedKVOps() []core.Op {
	return []core.Op{
		up(core.Call{F: "Put", B: bKV, K: "a", V: ""}),
		up(core.Call{F: "Put", B: bKV, K: "a", V: "x"}),
		up(core.Call{F: "Put", B: bKV, K: "ab", V: "y"}),
		up(core.Call{F: "PutTS", B: bKV, K: "a", V: "t", TTL: 5, TS: -4}),
		up(core.Call{F: "Delete", B: bKV, K: "a"}),
	}
}

func mixedListOps() []core.Op {
	return []core.Op{
		up(core.Call{F: "RPush", B: bL, K: "k", Vs: []string{"a"}}),
		up(core.Call{F: "RPush", B: bL, K: "k", Vs: []string{"b", "a|b"}}),
		up(core.Call{F: "LPush", B: bL, K: "k", Vs: []string{"c", ""}}),
		up(core.Call{F: "LPop", B: bL, K: "k"}),
		up(core.Call{F: "RPop", B: bL, K: "k"}),
		up(core.Call{F: "LRem", B: bL, K: "k", I: 1, V: "a"}),
		up(core.Call{F: "LRem", B: bL, K: "k", I: 0, V: "a|b"}),
		up(core.Call{F: "LSet", B: bL, K: "k", I: 0, V: "z"}),
		up(core.Call{F: "LTrim", B: bL, K: "k", I: 0, J: 0}),
		up(core.Call{F: "LTrim", B: bL, K: "k", I: 1, J: -1}),
	}
}

func mixedSetOps() []core.Op {
	return []core.Op{
		up(core.Call{F: "SAdd", B: bS, K: "k", Vs: []string{"m"}}),
		up(core.Call{F: "SAdd", B: bS, K: "k", Vs: []string{"n", ""}}),
		up(core.Call{F: "SAdd", B: bS, K: "j", Vs: []string{"m"}}),
		up(core.Call{F: "SAdd", B: bT, K: "k", Vs: []string{"o"}}),
		up(core.Call{F: "SRem", B: bS, K: "k", Vs: []string{"m"}}),
		up(core.Call{F: "SRem", B: bS, K: "k", Vs: []string{"zz"}}),
		up(core.Call{F: "SRem", B: bS, K: "q", Vs: []string{"m"}}),
		up(core.Call{F: "SPop", B: bS, K: "k"}),
		up(core.Call{F: "SMoveByOneBucket", B: bS, K: "k", K2: "j", V: "n"}),
		up(core.Call{F: "SMoveByTwoBuckets", B: bS, K: "k", B2: bT, K2: "k", V: "m"}),
	}
}

func mixedZSetOps() []core.Op {
	return []core.Op{
		up(core.Call{F: "ZAdd", B: bZ, K: "a", X: 1, V: "va"}),
		up(core.Call{F: "ZAdd", B: bZ, K: "b", X: 1, V: "vb"}),
		up(core.Call{F: "ZAdd", B: bZ, K: "a", X: 2, V: "va2"}),
		up(core.Call{F: "ZAdd", B: bZ, K: "", X: 0, V: "ve"}),
		up(core.Call{F: "ZRem", B: bZ, K: "a"}),
		up(core.Call{F: "ZRemRangeByRank", B: bZ, I: 1, J: 1}),
		up(core.Call{F: "ZPopMax", B: bZ}),
		up(core.Call{F: "ZPopMin", B: bZ}),
	}
}

// mixedDependentOps: multi-call bodies in which later calls depend on earlier ones, and calls
// that are valid at call time but no-ops (or failures) when applied at commit time.
func mixedDependentOps() []core.Op {
	return []core.Op{
		up(core.Call{F: "RPush", B: bL, K: "k", Vs: []string{"d"}}, core.Call{F: "LPop", B: bL, K: "k"}),
		upIgn(core.Call{F: "LPop", B: bL, K: "k"}, core.Call{F: "LPop", B: bL, K: "k"}),
		upIgn(core.Call{F: "RPop", B: bL, K: "k"}, core.Call{F: "LSet", B: bL, K: "k", I: 0, V: "w"}),
		upIgn(core.Call{F: "LTrim", B: bL, K: "k", I: 0, J: 0}, core.Call{F: "LRem", B: bL, K: "k", I: 1, V: "a"}),
		up(core.Call{F: "SAdd", B: bS, K: "k", Vs: []string{"p"}}, core.Call{F: "SRem", B: bS, K: "k", Vs: []string{"p"}}),
		upIgn(core.Call{F: "SPop", B: bS, K: "k"}, core.Call{F: "SPop", B: bS, K: "k"}),
		up(core.Call{F: "ZAdd", B: bZ, K: "c", X: 3, V: "vc"}, core.Call{F: "ZPopMax", B: bZ}),
		upIgn(core.Call{F: "ZPopMin", B: bZ}, core.Call{F: "ZPopMin", B: bZ}),
		up(core.Call{F: "Put", B: bKV, K: "a", V: "1"}, core.Call{F: "Delete", B: bKV, K: "a"}),
		up(core.Call{F: "Put", B: bKV, K: "ab", V: "2"}, core.Call{F: "Put", B: bL + "2", K: "k", V: "3"}),
	}
}

func mixedObs() []core.Call {
	var qs []core.Call
	// KV
	for _, k := range []string{"a", "ab", "zz"} {
		qs = append(qs, core.Call{F: "Get", B: bKV, K: k})
	}
	qs = append(qs, core.Call{F: "GetAll", B: bKV}, core.Call{F: "GetAll", B: "nobucket"},
		core.Call{F: "RangeScan", B: bKV, K: "", K2: "z"}, core.Call{F: "PrefixScan", B: bKV, K: "a", I: 0, J: -1},
		core.Call{F: "PrefixScan", B: bKV, K: "a", I: 0, J: 10}, core.Call{F: "Get", B: bL + "2", K: "k"})
	// lists
	for _, k := range []string{"k", "j"} {
		qs = append(qs, core.Call{F: "LRange", B: bL, K: k, I: 0, J: -1}, core.Call{F: "LSize", B: bL, K: k},
			core.Call{F: "LPeek", B: bL, K: k}, core.Call{F: "RPeek", B: bL, K: k})
	}
	// sets
	for _, bk := range [][2]string{{bS, "k"}, {bS, "j"}, {bT, "k"}, {bS, "q"}} {
		qs = append(qs, core.Call{F: "SMembers", B: bk[0], K: bk[1]}, core.Call{F: "SCard", B: bk[0], K: bk[1]}, core.Call{F: "SHasKey", B: bk[0], K: bk[1]})
		for _, m := range []string{"m", "n", "", "o", "p"} {
			qs = append(qs, core.Call{F: "SIsMember", B: bk[0], K: bk[1], V: m})
		}
	}
	qs = append(qs, core.Call{F: "SDiffByOneBucket", B: bS, K: "k", K2: "j"}, core.Call{F: "SUnionByOneBucket", B: bS, K: "k", K2: "j"},
		core.Call{F: "SDiffByTwoBuckets", B: bS, K: "k", B2: bT, K2: "k"}, core.Call{F: "SUnionByTwoBuckets", B: bS, K: "k", B2: bT, K2: "k"})
	// sorted set
	qs = append(qs, core.Call{F: "ZMembers", B: bZ}, core.Call{F: "ZCard", B: bZ}, core.Call{F: "ZRangeByRank", B: bZ, I: 1, J: -1},
		core.Call{F: "ZRangeByScore", B: bZ, XS: "-inf", YS: "+inf"}, core.Call{F: "ZRangeByScore", B: bZ, X: 2, Y: 0},
		core.Call{F: "ZPeekMin", B: bZ}, core.Call{F: "ZPeekMax", B: bZ})
	for _, k := range []string{"a", "b", "c", ""} {
		qs = append(qs, core.Call{F: "ZRank", B: bZ, K: k}, core.Call{F: "ZRevRank", B: bZ, K: k}, core.Call{F: "ZScore", B: bZ, K: k}, core.Call{F: "ZGetByKey", B: bZ, K: k})
	}
	return qs
}

// mixedOps composes the mixed alphabet for a configuration: list/set/zset ops only in the mode
// that supports them across a reopen (KV).
func mixedOps(cfg core.Cfg, dependent bool) []core.Op {
	ops := mixedKVOps()
	if cfg.Mode == core.KV {
		ops = append(ops, mixedListOps()...)
		ops = append(ops, mixedSetOps()...)
		ops = append(ops, mixedZSetOps()...)
		if dependent {
			ops = append(ops, mixedDependentOps()...)
		}
	} else if dependent {
		d := mixedDependentOps()
		ops = append(ops, d[len(d)-2:]...)
	}
	ops = append(ops, core.Op{Kind: "tick"}, core.Op{Kind: "reopen"})
	return ops
}

func mixedObsFor(cfg core.Cfg) []core.Call {
	qs := mixedObs()
	if cfg.Mode == core.KV {
		return qs
	}
	// KV queries only
	var out []core.Call
	for _, c := range qs {
		switch c.F {
		case "Get", "GetAll", "RangeScan", "PrefixScan":
			out = append(out, c)
		}
	}
	return out
}
