package checks

import (
	"fmt"
	"os"

	"verif/mc/core"
	"verif/mc/eng"
)

// C18 (E1 part): Backup at an arbitrary point of a history; the copy must open with the same
// options and show exactly the model at backup time; the source must be unchanged.
func c18Profile(tier string) *eng.Profile {
	ops := func(cfg core.Cfg) []core.Op {
		o := mixedOps(cfg, false)
		return append(o, core.Op{Kind: "backup"})
	}
	p := &eng.Profile{ID: "C18", Name: "backup-hist",
		Cfgs: []core.Cfg{{Mode: core.KV, Seg: 100}, {Mode: core.KV, RW: core.M, Start: core.M, Seg: 100}, {Mode: core.K, Seg: 100}, {Mode: core.K, RW: core.M, Start: core.M, Seg: 100},
			{Mode: core.S, Seg: 100}, {Mode: core.S, RW: core.M, Start: core.M, Seg: 100}},
		Ops:   ops,
		Obs:   mixedObsFor,
		Depth: 3,
	}
	if tier == "thorough" {
		p.Depth = 4
		p.DepthFor = func(c core.Cfg) int {
			if c.Mode == core.KV {
				return 3
			}
			return 4
		}
	}
	p.Run = func(p *eng.Profile, cfg core.Cfg, hist []core.Op, leaf *eng.Leaf) {
		last := hist[len(hist)-1]
		if last.Kind != "backup" {
			lf := eng.RunOps(&eng.Profile{ID: "C18", Name: "setup", Obs: p.Obs, Judge: func(c *eng.Ctx) {
				if len(c.Last.Bad) > 0 || c.Last.Panic != "" || c.Last.Err && c.Ops[len(c.Ops)-1].Kind == "reopen" {
					c.Add("SETUP", "setup-failed", c.Ops[len(c.Ops)-1].String())
				}
			}}, cfg, hist)
			*leaf = lf
			return
		}
		leaf.NoExpand = true
		in := core.OpenInst(cfg)
		defer in.Discard()
		queries := p.Obs(cfg)
		add := func(kind, what string, atoms []string, detail ...string) {
			if len(atoms) == 0 {
				atoms = []string{what}
			}
			leaf.Viol = append(leaf.Viol, eng.Violation{Prop: "C18", Kind: kind, Cfg: cfg, Ops: hist, What: what, Atoms: atoms, Detail: detail})
		}
		for _, op := range hist[:len(hist)-1] {
			in.Apply(op)
			if in.Poisoned != "" || in.DB == nil {
				return
			}
		}
		// queries whose answer on the source disagrees with the model are other properties' business
		before, err := in.Observe(queries)
		if err != nil {
			return
		}
		qok := map[string]bool{}
		m := in.Model.Clone()
		for i, c := range queries {
			qok[c.String()] = m.Eval(c, before[i]).Check(before[i]) == ""
		}
		dir := core.NewDir()
		defer os.RemoveAll(dir)
		var berr error
		func() {
			defer func() {
				if r := recover(); r != nil {
					berr = fmt.Errorf("panic: %v", r)
					in.Poisoned = fmt.Sprint(r)
				}
			}()
			berr = in.DB.Backup(dir)
		}()
		if berr != nil {
			add("backup-failed", eng.ErrClass(berr.Error()), nil, berr.Error())
			return
		}
		if leaf.Features == nil {
			leaf.Features = map[string]int{}
		}
		leaf.Features["backup"]++
		cp := core.OpenDir(cfg, dir, in.Model)
		if cp.OpenErr != nil {
			add("backup-open-error", eng.ErrClass(cp.OpenErr.Error()), nil, cp.OpenErr.Error())
			return
		}
		obs, err := cp.Observe(queries)
		cp.CloseOnly()
		leaf.Evals += len(obs) * 2
		if err != nil {
			add("backup-obs-failed", "View", nil, err.Error())
			return
		}
		var bad []core.Mismatch
		for _, mm := range core.CheckObs(in.Model, queries, obs) {
			if qok[mm.Call.String()] {
				bad = append(bad, mm)
			}
		}
		if len(bad) > 0 {
			var atoms, det []string
			for _, mm := range bad {
				atoms = append(atoms, mm.Atom())
				det = append(det, mm.String())
			}
			add("backup-content", atoms[0], uniq(atoms), det...)
			return
		}
		after, _ := in.Observe(queries)
		if d := core.DiffObs(queries, before, after); len(d) > 0 {
			var atoms, det []string
			for _, mm := range d {
				atoms = append(atoms, mm.Atom())
				det = append(det, mm.String())
			}
			add("backup-changed-source", atoms[0], uniq(atoms), det...)
		}
		leaf.Nontrivial = true
		leaf.ModelHash = core.Hash(in.Model.Canon())
		leaf.ObsHash = core.Hash(fmt.Sprint(obs))
	}
	return p
}

// c18ManyFilesProfile: Backup of directories with two-digit file ids (one record per segment).
func c18ManyFilesProfile(tier string) *eng.Profile {
	mf := c08ManyFilesProfile(tier)
	p := c18Profile(tier)
	p.Name = "backup-many-files"
	p.Cfgs = mf.Cfgs
	p.Ops = func(cfg core.Cfg) []core.Op {
		var o []core.Op
		for _, op := range mf.Ops(cfg) {
			// no restarts here; no multi-pop transaction (pops inside one transaction do not see each
			// other - the known finding of C13 - and would only make the set-up disagree with the model)
			if op.Kind == "reopen" || (len(op.Calls) > 0 && op.Calls[0].F == "LPop") {
				continue
			}
			o = append(o, op)
		}
		return append(o, core.Op{Kind: "backup"})
	}
	p.Obs = mf.Obs
	p.Depth, p.DepthFor = 3, nil
	if tier == "thorough" {
		p.Depth = 4
	}
	return p
}

func init() {
	profileBuilders = append(profileBuilders, func(tier string) { Register(c18Profile(tier)); Register(c18ManyFilesProfile(tier)) })
	Registry["C18"] = func(r *Run) {
		r.Rule = "E1: Backup(newdir) after every history of <=depth-1 ops of the mixed alphabet in every index mode x {FileIO,MMap}; the copy is opened with the same options and its full observation must equal the reference model at backup time; the source's observation must be unchanged; the same after C08's many-files histories (one record per segment, up to 24 segment files); the same after every history of a value-shape grid (values of zero bytes / 0xff bytes / 'x' of 12 sizes around 512, 4096, 8192 and 16384 bytes x 4 layouts incl. a sealed segment, segment size 24576). E3: every schedule with <= bound preemptions of a backup thread against two writer threads whose records land in different segments (every file open/create/copy of CopyDir is a scheduling point); the copy's observation is judged as a read-only transaction: it must equal a state the database had during the backup's interval (strict serializability)"
		r.Assume = []string{"queries whose answer on the source already disagrees with the model are excluded (other properties' defects)"}
		r.Required = []string{"backup"}
		r.Explore(c18Profile(r.Tier), "C18")
		r.Explore(c18ManyFilesProfile(r.Tier), "C18")
		runC18Values(r)
		bound, max := 2, 25000
		if r.Tier == "thorough" {
			bound, max = 3, 300000
		}
		runSched(r, "C18/", bound, max)
	}
}
