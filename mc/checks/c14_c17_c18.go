package checks

import (
	"encoding/json"
	"fmt"
	"strconv"
	"strings"

	"github.com/xujiajun/nutsdb/verifshim/vrt"
	"github.com/xujiajun/utils/filesystem"

	"verif/mc/core"
)

// valOf extracts the value from the rendering of a Get result ("b"/"k"="v").
func valOf(r core.Res) string {
	if r.Err {
		return ""
	}
	i := strings.LastIndex(r.Val, "=")
	if i < 0 {
		return ""
	}
	v, err := strconv.Unquote(r.Val[i+1:])
	if err != nil {
		return ""
	}
	return v
}

func put(k, v string) core.Call { return core.Call{F: "Put", B: "b", K: k, V: v} }
func get(k string) core.Call    { return core.Call{F: "Get", B: "b", K: k} }

func kvQueries(keys ...string) []core.Call {
	var qs []core.Call
	for _, k := range keys {
		qs = append(qs, get(k))
	}
	qs = append(qs, core.Call{F: "RangeScan", B: "b", K: "", K2: "z"}, core.Call{F: "PrefixScan", B: "b", K: "k", I: 0, J: 100})
	return qs
}

func modeName(m int) string { return [...]string{"KV", "K", "S"}[m] }

func classesFor(mode int) []string {
	c := append([]string(nil), baseClasses...)
	if mode != core.KV {
		c = append(c, "fs-open-for-read")
	}
	return c
}

func registerHarnesses() {
	filesystem.VerifPoint = func(kind, detail string) { vrt.Point("fs-copy", detail) }
	for _, mode := range []int{core.KV, core.K, core.S} {
		mode := mode
		cfg := core.Cfg{Mode: mode, Seg: 100}
		// H1: two read-modify-write updates of one key + a view reading two keys twice
		harnesses["C14/H1-rmw/"+modeName(mode)] = func() *harness {
			rmw := func(suffix string) func(do func(core.Call) core.Res, yield func()) error {
				return func(do func(core.Call) core.Res, yield func()) error {
					r := do(get("k1"))
					yield()
					do(put("k1", valOf(r)+suffix))
					return nil
				}
			}
			return &harness{name: "H1", cfg: cfg, ndb: 1, classes: classesFor(mode),
				setup:   []core.Op{up(put("k1", "0")), up(put("k2", "0"))},
				queries: kvQueries("k1", "k2"),
				threads: []hthread{
					{name: "W1", kind: "update", body: rmw("a")},
					{name: "W2", kind: "update", body: rmw("b")},
					{name: "R", kind: "view", body: func(do func(core.Call) core.Res, yield func()) error {
						do(get("k1"))
						do(get("k2"))
						yield()
						do(get("k1"))
						do(get("k2"))
						return nil
					}},
				}}
		}
		// H2: a multi-record update that rotates the segment + two views that read through the index
		harnesses["C14/H2-rotate/"+modeName(mode)] = func() *harness {
			return &harness{name: "H2", cfg: cfg, ndb: 1, classes: classesFor(mode),
				setup:   []core.Op{up(put("k1", "0"))},
				queries: kvQueries("k1", "k2", "k3"),
				threads: []hthread{
					{name: "W", kind: "update", body: func(do func(core.Call) core.Res, yield func()) error {
						do(put("k1", "x1"))
						do(put("k2", "x2"))
						do(put("k3", "x3"))
						return nil
					}},
					{name: "R1", kind: "view", body: func(do func(core.Call) core.Res, yield func()) error {
						do(get("k1"))
						do(core.Call{F: "RangeScan", B: "b", K: "", K2: "z"})
						return nil
					}},
					{name: "R2", kind: "view", body: func(do func(core.Call) core.Res, yield func()) error {
						do(core.Call{F: "PrefixScan", B: "b", K: "k", I: 0, J: 100})
						do(get("k3"))
						return nil
					}},
				}}
		}
		// H4: Close racing with an update and a view
		harnesses["C14/H4-close/"+modeName(mode)] = func() *harness {
			return &harness{name: "H4", cfg: cfg, ndb: 1, classes: classesFor(mode),
				setup:   []core.Op{up(put("k1", "0"))},
				queries: kvQueries("k1", "k2"),
				threads: []hthread{
					{name: "C", kind: "close"},
					{name: "W", kind: "update", body: func(do func(core.Call) core.Res, yield func()) error {
						do(put("k1", "w"))
						do(put("k2", "w"))
						return nil
					}},
					{name: "R", kind: "view", body: func(do func(core.Call) core.Res, yield func()) error {
						do(get("k1"))
						yield()
						do(get("k1"))
						return nil
					}},
				}}
		}
	}
	// H6: two views reading through the index files at the same time (key-only and sparse mode): every
	// file read is a scheduling point, so two readers can interleave inside one record read
	for _, mode := range []int{core.K, core.S} {
		mode := mode
		harnesses["C14/H6-readers/"+modeName(mode)] = func() *harness {
			rd := func(a, b string) func(do func(core.Call) core.Res, yield func()) error {
				return func(do func(core.Call) core.Res, yield func()) error {
					do(get(a))
					do(get(b))
					return nil
				}
			}
			return &harness{name: "H6", cfg: core.Cfg{Mode: mode, Seg: 100}, ndb: 1, classes: []string{"fs-read", "fs-open-for-read", "fs-open", "yield"},
				setup:   []core.Op{up(put("k1", "v1")), up(put("k2", "value-two")), up(put("k3", "v3"))},
				queries: kvQueries("k1", "k2", "k3"),
				threads: []hthread{{name: "R1", kind: "view", body: rd("k1", "k2")}, {name: "R2", kind: "view", body: rd("k2", "k1")}}}
		}
	}
	// H3: two databases in one process, each rotating a segment whose tree has two levels (sparse)
	harnesses["C14/H3-two-dbs/S"] = func() *harness {
		var setup []core.Call
		var keys []string
		for i := 0; i < 8; i++ {
			setup = append(setup, put(fmt.Sprintf("k%d", i), ""))
		}
		for i := 0; i < 10; i++ {
			keys = append(keys, fmt.Sprintf("k%d", i))
		}
		body := func(do func(core.Call) core.Res, yield func()) error {
			do(put("k8", ""))
			do(put("k9", ""))
			return nil
		}
		var qs []core.Call
		for _, k := range keys {
			qs = append(qs, get(k))
		}
		return &harness{name: "H3", cfg: core.Cfg{Mode: core.S, Seg: 410}, ndb: 2, classes: []string{"fs-write", "fs-open", "fs-sync", "yield"},
			setup:   []core.Op{up(setup...)},
			queries: qs,
			threads: []hthread{{name: "T0", db: 0, kind: "update", body: body}, {name: "T1", db: 1, kind: "update", body: body}}}
	}
	// H5: pops of a list, a set and a sorted set from two writers
	harnesses["C14/H5-pops/KV"] = func() *harness {
		body := func(do func(core.Call) core.Res, yield func()) error {
			do(core.Call{F: "LPop", B: bL, K: "k"})
			do(core.Call{F: "SPop", B: bS, K: "k"})
			do(core.Call{F: "ZPopMin", B: bZ})
			return nil
		}
		return &harness{name: "H5", cfg: core.Cfg{Mode: core.KV, Seg: 200}, ndb: 1, classes: baseClasses,
			setup: []core.Op{up(core.Call{F: "RPush", B: bL, K: "k", Vs: []string{"a", "b"}}, core.Call{F: "SAdd", B: bS, K: "k", Vs: []string{"m", "n"}},
				core.Call{F: "ZAdd", B: bZ, K: "a", X: 1, V: "va"}, core.Call{F: "ZAdd", B: bZ, K: "b", X: 2, V: "vb"})},
			queries: []core.Call{{F: "LRange", B: bL, K: "k", I: 0, J: -1}, {F: "SMembers", B: bS, K: "k"}, {F: "ZMembers", B: bZ}},
			threads: []hthread{{name: "W1", kind: "update", body: body}, {name: "W2", kind: "update", body: body}}}
	}
	// C17: Merge concurrent with an update and a view
	for _, mode := range []int{core.KV, core.K} {
		mode := mode
		harnesses["C17/merge/"+modeName(mode)] = func() *harness {
			return &harness{name: "C17", cfg: core.Cfg{Mode: mode, Seg: 100}, ndb: 1, classes: classesFor(mode),
				setup:   []core.Op{up(put("k1", "x")), up(put("k2", "y")), up(put("k3", "z"))},
				queries: kvQueries("k1", "k2", "k3"),
				threads: []hthread{
					{name: "M", kind: "merge"},
					{name: "W", kind: "update", body: func(do func(core.Call) core.Res, yield func()) error {
						do(put("k1", "w"))
						return nil
					}},
					{name: "R", kind: "view", body: func(do func(core.Call) core.Res, yield func()) error {
						do(get("k1"))
						do(get("k2"))
						yield()
						do(get("k1"))
						do(get("k2"))
						return nil
					}},
				}}
		}
	}
	// C17: Merge concurrent with writers of a set and a sorted set (adds only: a concurrent remove is
	// undone by Merge's rewrite, which is the known non-isolation finding) and a reader of them
	harnesses["C17/merge-structs/KV"] = func() *harness {
		return &harness{name: "C17s", cfg: core.Cfg{Mode: core.KV, Seg: 100}, ndb: 1, classes: classesFor(core.KV),
			setup:   []core.Op{up(put("k1", "x")), up(core.Call{F: "SAdd", B: bS, K: "k", Vs: []string{"m"}}), up(core.Call{F: "ZAdd", B: bZ, K: "a", X: 1, V: "va"}), up(put("k1", "y"))},
			queries: append(kvQueries("k1"), core.Call{F: "SMembers", B: bS, K: "k"}, core.Call{F: "ZMembers", B: bZ}, core.Call{F: "SIsMember", B: bS, K: "k", V: "n"}),
			threads: []hthread{
				{name: "M", kind: "merge"},
				{name: "W", kind: "update", body: func(do func(core.Call) core.Res, yield func()) error {
					do(core.Call{F: "SAdd", B: bS, K: "k", Vs: []string{"n"}})
					do(core.Call{F: "ZAdd", B: bZ, K: "b", X: 2, V: "vb"})
					return nil
				}},
				{name: "R", kind: "view", body: func(do func(core.Call) core.Res, yield func()) error {
					do(core.Call{F: "SIsMember", B: bS, K: "k", V: "n"})
					do(core.Call{F: "ZScore", B: bZ, K: "b"})
					return nil
				}},
			}}
	}
	// C17: Merge of a database in which nothing is live any more, concurrent with a writer and a reader
	harnesses["C17/merge-nothing-live/KV"] = func() *harness {
		return &harness{name: "C17e", cfg: core.Cfg{Mode: core.KV, Seg: 100}, ndb: 1, classes: classesFor(core.KV),
			setup:   []core.Op{up(put("k1", "x")), up(put("k2", "y")), up(core.Call{F: "Delete", B: "b", K: "k1"}), up(core.Call{F: "Delete", B: "b", K: "k2"})},
			queries: kvQueries("k1", "k2", "k3"),
			threads: []hthread{
				{name: "M", kind: "merge"},
				{name: "W", kind: "update", body: func(do func(core.Call) core.Res, yield func()) error {
					do(put("k3", "w"))
					return nil
				}},
				{name: "R", kind: "view", body: func(do func(core.Call) core.Res, yield func()) error {
					do(get("k3"))
					do(get("k1"))
					return nil
				}},
			}}
	}
	// C18: Backup concurrent with two writers whose records land in different segments
	for _, mr := range [][2]int{{core.KV, core.F}, {core.K, core.F}, {core.S, core.F}, {core.KV, core.M}, {core.K, core.M}} {
		mode, rw := mr[0], mr[1]
		hname := "C18/backup/" + modeName(mode)
		if rw == core.M {
			hname += "-mmap"
		}
		harnesses[hname] = func() *harness {
			return &harness{name: "C18", cfg: core.Cfg{Mode: mode, RW: rw, Start: rw, Seg: 100}, ndb: 1, classes: append(classesFor(mode), "fs-copy"),
				setup:   []core.Op{up(put("k1", "0"))},
				queries: kvQueries("k1", "k2", "k3", "k4"),
				threads: []hthread{
					{name: "B", kind: "backup"},
					{name: "W1", kind: "update", body: func(do func(core.Call) core.Res, yield func()) error {
						do(put("k1", "a1"))
						do(put("k2", "a2"))
						do(put("k3", "a3"))
						return nil
					}},
					{name: "W2", kind: "update", body: func(do func(core.Call) core.Res, yield func()) error {
						do(put("k4", "b"))
						return nil
					}},
				}}
		}
	}
}

func harnessNames(prefix string) []string {
	var out []string
	for k := range harnesses {
		if strings.HasPrefix(k, prefix) {
			out = append(out, k)
		}
	}
	sortStrings(out)
	return out
}

// runSched runs the E3 jobs of a property on the pool and folds the results into the run.
func runSched(r *Run, prefix string, bound, max int) {
	names := harnessNames(prefix)
	var args []interface{}
	budget := int(r.Budget.Seconds()) - 20
	for _, n := range names {
		args = append(args, schedJob{Harness: n, Bound: bound, Max: max, BudgetS: budget})
	}
	type agg struct {
		Schedules, WithPreemption, Traces, Points int
	}
	per := map[string]interface{}{}
	minBound := bound
	r.Pool.ParallelCustom("sched", args, func(i int, raw json.RawMessage, ok bool) {
		var o schedOut
		if !ok || jsonUnmarshal(raw, &o) != nil {
			r.Stats.Exhaustive = false
			r.Stats.CapsHit = append(r.Stats.CapsHit, names[i]+": worker died")
			return
		}
		per[o.Harness] = map[string]interface{}{"schedules": o.Schedules, "with_preemption": o.WithPreemption, "distinct_traces": o.DistinctTraces,
			"distinct_outcomes": o.Outcomes, "max_points": o.MaxPoints, "preemption_bound_completed": o.Bound, "capped": o.Capped, "point_kinds": o.Kinds}
		if !o.Determinism {
			fmt.Printf("HARNESS-ERROR: %s: replaying the same schedule gave a different trace\n", o.Harness)
			osExit(2)
		}
		r.Stats.Transitions += o.Points
		r.Stats.Evals += o.Evals
		r.Stats.Extra["schedules"] += o.Schedules
		r.Stats.Extra["schedules_with_preemption"] += o.WithPreemption
		r.Stats.Extra["porcupine_checks"] += o.PorcupineRuns
		for k := 0; k < o.DistinctTraces; k++ {
			r.Stats.States[fmt.Sprintf("%s#%d", o.Harness, k)] = true
		}
		for k := 0; k < o.WithPreemption && k < o.DistinctTraces; k++ {
			r.Stats.Nontrivial[fmt.Sprintf("%s#%d", o.Harness, k)] = true
		}
		for k := 0; k < o.Outcomes; k++ {
			r.Stats.Outcomes[fmt.Sprintf("%s#%d", o.Harness, k)] = true
		}
		if o.Capped {
			r.Stats.Exhaustive = false
			r.Stats.CapsHit = append(r.Stats.CapsHit, fmt.Sprintf("%s: capped after %d schedules (bound %d completed)", o.Harness, o.Schedules, o.Bound))
		}
		if o.Bound < minBound {
			minBound = o.Bound
		}
		r.Stats.Samples = append(r.Stats.Samples, o.Sample)
		for _, v := range o.Viol {
			r.OnViol(r.Prop, strings.SplitN(o.Harness, "/", 2)[0])(v)
		}
	})
	r.Extra["harnesses"] = per
	r.Extra["preemption_bound_completed"] = minBound
}

func init() {
	registerHarnesses()
	Registry["C14"] = func(r *Run) {
		r.Rule = "every schedule with <= bound preemptions of each harness (H1 two read-modify-write updates + a view reading twice; H2 a rotating multi-record update + two index-reading views; H3 two sparse databases rotating two-level trees in one process; H4 Close vs update vs view; H5 list/set/zset pops from two writers) in KV/key-only/sparse mode; scheduling points: every lock operation, file write/open/sync/remove/truncate, clock read, explicit yields (key-only and sparse also opens for reading); oracles: strict serializability of the recorded transactions (brute force over serial orders consistent with real time, cross-checked with porcupine), snapshot stability, no deadlock/panic/hang, final observation = a valid serial order, same after reopen; states = distinct traces, non-trivial = schedules with >=1 preemption"
		r.Assume = []string{"2-3 threads; the 16-goroutine part of the quantifier is met only by the free-running race-detector pass", "Go's writer preference of RWMutex is not modelled (superset of behaviours)"}
		bound, max := 2, 25000
		if r.Tier == "thorough" {
			bound, max = 3, 400000
		}
		runSched(r, "C14/", bound, max)
		racePass(r, "C14")
	}
	Registry["C17"] = func(r *Run) {
		r.Rule = "every schedule with <= bound preemptions of: thread M calls Merge, thread W updates a key that lives in a segment being merged, thread R reads it twice in one view; scheduling points inside Merge: every data-file open, record write, lock operation, remove; oracles: strict serializability of W and R with Merge as a no-op, final observation and observation after reopen = a valid serial order, no deadlock/panic"
		r.Assume = []string{"RAM index modes (sparse mode refuses Merge)"}
		bound, max := 2, 25000
		if r.Tier == "thorough" {
			bound, max = 3, 400000
		}
		runSched(r, "C17/", bound, max)
		racePass(r, "C17")
	}
}
