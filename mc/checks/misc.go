package checks

import (
	"encoding/json"
	"path/filepath"
	"sort"
)

func sortStrings(s []string) { sort.Strings(s) }

func jsonUnmarshal(b []byte, v interface{}) error { return json.Unmarshal(b, v) }

// racePass is replaced when the free-running race-detector pass is wired in.
var racePass = func(r *Run, prop string) {}

func filepathGlob(p string) ([]string, error) { return filepath.Glob(p) }
