package checks

import (
	"fmt"

	"verif/mc/core"
	"verif/mc/eng"
)

// ---------------------------------------------------------------- C12: failed / rolled-back / read-only transactions

// expectNoEffect reports whether the op must leave every read unchanged.
func expectNoEffect(o core.Op, seg int64) bool {
	if o.Kind == "view" || o.Kind == "begin-rollback" || o.ErrAfter > 0 {
		return true
	}
	for _, c := range o.Calls {
		if c.Big > 0 && int64(c.Big) >= seg {
			return true
		}
	}
	return false
}

func allMutators() []core.Call {
	return []core.Call{
		{F: "Put", B: bKV, K: "a", V: "ro"}, {F: "Delete", B: bKV, K: "ab"}, {F: "PutTS", B: bKV, K: "c", V: "ro", TTL: 0},
		{F: "RPush", B: bL, K: "k", Vs: []string{"ro"}}, {F: "LPush", B: bL, K: "k", Vs: []string{"ro"}}, {F: "LPop", B: bL, K: "k"}, {F: "RPop", B: bL, K: "k"},
		{F: "LRem", B: bL, K: "k", I: 0, V: "a"}, {F: "LSet", B: bL, K: "k", I: 0, V: "ro"}, {F: "LTrim", B: bL, K: "k", I: 0, J: 0},
		{F: "SAdd", B: bS, K: "k", Vs: []string{"ro"}}, {F: "SRem", B: bS, K: "k", Vs: []string{"m"}}, {F: "SPop", B: bS, K: "k"},
		{F: "SMoveByOneBucket", B: bS, K: "k", K2: "j", V: "m"}, {F: "SMoveByTwoBuckets", B: bS, K: "k", B2: bT, K2: "k", V: "m"},
		{F: "ZAdd", B: bZ, K: "ro", X: 9, V: "ro"}, {F: "ZRem", B: bZ, K: "a"}, {F: "ZRemRangeByRank", B: bZ, I: 1, J: 1}, {F: "ZPopMax", B: bZ}, {F: "ZPopMin", B: bZ},
	}
}

func c12Ops(cfg core.Cfg) []core.Op {
	big := int(cfg.Seg) + 1
	// set-up writes (committed)
	ops := []core.Op{
		up(core.Call{F: "Put", B: bKV, K: "a", V: "x"}),
		up(core.Call{F: "Put", B: bKV, K: "ab", V: "y"}),
		{Kind: "update", Calls: []core.Call{{F: "Put", B: bKV, K: "b", V: "s"}}, SameMs: true},
	}
	if cfg.Mode == core.KV {
		ops = append(ops,
			up(core.Call{F: "RPush", B: bL, K: "k", Vs: []string{"a", "b"}}),
			up(core.Call{F: "SAdd", B: bS, K: "k", Vs: []string{"m", "n"}}, core.Call{F: "SAdd", B: bS, K: "j", Vs: []string{"o"}}, core.Call{F: "SAdd", B: bT, K: "k", Vs: []string{"o"}}),
			up(core.Call{F: "ZAdd", B: bZ, K: "a", X: 1, V: "va"}, core.Call{F: "ZAdd", B: bZ, K: "b", X: 2, V: "vb"}),
			core.Op{Kind: "update", Calls: []core.Call{{F: "RPush", B: bL, K: "k", Vs: []string{"s"}}}, SameMs: true},
		)
	}
	// transactions that must have no effect
	ops = append(ops,
		core.Op{Kind: "update", Calls: []core.Call{{F: "Put", B: bKV, K: "a", V: "f1"}}, ErrAfter: 1},
		core.Op{Kind: "update", Calls: []core.Call{{F: "Put", B: bKV, K: "a", V: "f2"}, {F: "Delete", B: bKV, K: "ab"}}, ErrAfter: 2},
		core.Op{Kind: "begin-rollback", Calls: []core.Call{{F: "Put", B: bKV, K: "a", V: "rb"}, {F: "Delete", B: bKV, K: "ab"}}},
		core.Op{Kind: "begin-commit", Calls: []core.Call{{F: "Put", B: bKV, K: "c", V: "bc"}}},
		up(core.Call{F: "Put", B: bKV, K: "a", Big: big}, core.Call{F: "Put", B: bKV, K: "ab", V: "o1"}, core.Call{F: "Put", B: bKV, K: "c", V: "o1"}),
		up(core.Call{F: "Put", B: bKV, K: "a", V: "o2"}, core.Call{F: "Put", B: bKV, K: "ab", Big: big}, core.Call{F: "Put", B: bKV, K: "c", V: "o2"}),
		up(core.Call{F: "Put", B: bKV, K: "a", V: "o3"}, core.Call{F: "Delete", B: bKV, K: "ab"}, core.Call{F: "Put", B: bKV, K: "c", Big: big}),
	)
	if cfg.Mode == core.KV {
		ops = append(ops,
			core.Op{Kind: "update", Calls: []core.Call{{F: "RPush", B: bL, K: "k", Vs: []string{"f"}}, {F: "SAdd", B: bS, K: "k", Vs: []string{"f"}}, {F: "ZAdd", B: bZ, K: "f", X: 5, V: "f"}}, ErrAfter: 3},
			core.Op{Kind: "begin-rollback", Calls: []core.Call{{F: "LPop", B: bL, K: "k"}, {F: "SPop", B: bS, K: "k"}, {F: "ZPopMax", B: bZ}}, IgnoreErr: true},
			up(core.Call{F: "RPush", B: bL, K: "k", Vs: []string{"o4"}}, core.Call{F: "SAdd", B: bS, K: "k", Vs: []string{"o4"}}, core.Call{F: "Put", B: bKV, K: "c", Big: big}),
			core.Op{Kind: "view", Calls: allMutators(), IgnoreErr: true},
		)
	} else {
		ops = append(ops, core.Op{Kind: "view", Calls: allMutators()[:3], IgnoreErr: true})
	}
	ops = append(ops, core.Op{Kind: "reopen"})
	return ops
}

func c12Profile(tier string) *eng.Profile {
	p := &eng.Profile{ID: "C12", Name: "noeffect",
		Cfgs:       []core.Cfg{{Mode: core.KV, Seg: 200}, {Mode: core.KV, RW: core.M, Start: core.M, Seg: 200}, {Mode: core.K, Seg: 200}, {Mode: core.S, Seg: 200}},
		Ops:        c12Ops,
		Obs:        mixedObsFor,
		Depth:      3,
		ObsBefore:  true,
		ReopenLeaf: true,
		Judge: func(c *eng.Ctx) {
			last := c.Ops[len(c.Ops)-1]
			if c.Last.Panic != "" {
				c.Add("C12", "panic", callNamesOf(c), c.Last.Panic)
				return
			}
			if expectNoEffect(last, c.Cfg.Seg) {
				c.Feature("no-effect-op:" + last.Kind)
				if last.Kind != "view" && !c.Last.Err {
					c.Add("C12", "op-outcome", last.Kind+":succeeded", "a transaction that must fail returned nil: "+last.String())
					return
				}
				for _, n := range c.Last.Notes {
					c.Add("C12", "op-outcome", last.Kind+":note", n)
					return
				}
				if last.Kind == "view" {
					if len(c.Last.Bad) > 0 {
						c.AddBad("C12", "call-result", c.Last.Bad)
						return
					}
				}
				if d := core.DiffObs(c.Queries, c.ObsPrev, c.Obs); len(d) > 0 {
					c.AddBad("C12", "effect-in-process", d)
					return
				}
				if c.ReopenErr != nil {
					c.Add("C09", "open-error", eng.ErrClass(c.ReopenErr.Error()), c.ReopenErr.Error())
					return
				}
				if d := core.DiffObs(c.Queries, c.ObsPrev, c.ObsReopen); len(d) > 0 {
					c.AddBad("C12", "effect-after-reopen", d)
				}
				return
			}
			if last.Kind == "begin-commit" {
				c.Feature("finished-tx-calls")
				for _, n := range c.Last.Notes {
					c.Add("C12", "op-outcome", "finished-tx", n)
					return
				}
			}
			// a committed transaction (possibly sharing a millisecond with a failed one): the failed
			// one must stay invisible, in the process and after reopen
			if last.SameMs {
				c.Feature("same-ms")
			}
			eng.JudgeModel(c, "C12")
			if len(c.Leaf.Viol) > 0 {
				return
			}
			if c.ReopenErr != nil {
				c.Add("C09", "open-error", eng.ErrClass(c.ReopenErr.Error()), c.ReopenErr.Error())
				return
			}
			if d := core.DiffObs(c.Queries, c.Obs, c.ObsReopen); len(d) > 0 {
				c.AddBad("C12", "effect-after-reopen", d)
			}
		},
	}
	if tier == "thorough" {
		p.Depth = 4
	}
	return p
}

// ---------------------------------------------------------------- C15: Merge does not change the logical contents

func c15Ops(cfg core.Cfg) []core.Op {
	ops := []core.Op{
		up(core.Call{F: "Put", B: bKV, K: "a", V: "x"}),
		up(core.Call{F: "Put", B: bKV, K: "ab", V: "y"}),
		up(core.Call{F: "PutTS", B: bKV, K: "c", V: "t", TTL: 5, TS: -4}),
		up(core.Call{F: "Delete", B: bKV, K: "a"}),
		core.Op{Kind: "update", Calls: []core.Call{{F: "Put", B: bKV, K: "a", V: "failed"}, {F: "Put", B: bKV, K: "ab", Big: int(cfg.Seg) + 1}}},
		// a committed transaction of three records: with two records per segment it always straddles
		// a segment boundary
		up(core.Call{F: "Put", B: bKV, K: "a", V: "m1"}, core.Call{F: "Put", B: bKV, K: "ab", V: "m2"}, core.Call{F: "Put", B: bKV, K: "d", V: "m3"}),
	}
	if cfg.Mode == core.KV {
		ops = append(ops,
			up(core.Call{F: "ZAdd", B: bZ, K: "c", X: 3, V: "vc"}, core.Call{F: "ZAdd", B: bZ, K: "d", X: 4, V: "vd"}, core.Call{F: "ZAdd", B: bZ, K: "a", X: 5, V: "va5"}),
			up(core.Call{F: "RPush", B: bL, K: "k", Vs: []string{"a"}}),
			up(core.Call{F: "RPush", B: bL, K: "k", Vs: []string{"b"}}),
			up(core.Call{F: "LPop", B: bL, K: "k"}),
			up(core.Call{F: "LSet", B: bL, K: "k", I: 0, V: "z"}),
			up(core.Call{F: "SAdd", B: bS, K: "k", Vs: []string{"m"}}),
			up(core.Call{F: "SAdd", B: bS, K: "k", Vs: []string{"n"}}),
			up(core.Call{F: "SRem", B: bS, K: "k", Vs: []string{"m"}}),
			up(core.Call{F: "ZAdd", B: bZ, K: "a", X: 1, V: "va"}),
			up(core.Call{F: "ZAdd", B: bZ, K: "b", X: 2, V: "vb"}),
			up(core.Call{F: "ZRem", B: bZ, K: "a"}),
		)
	}
	ops = append(ops, core.Op{Kind: "tick"}, core.Op{Kind: "reopen"}, core.Op{Kind: "merge"})
	return ops
}

func c15Profile(tier string) *eng.Profile {
	p := &eng.Profile{ID: "C15", Name: "merge",
		Cfgs:       []core.Cfg{{Mode: core.KV, Seg: 100}, {Mode: core.K, Seg: 100}, {Mode: core.KV, RW: core.M, Start: core.M, Seg: 100}},
		Ops:        c15Ops,
		Obs:        mixedObsFor,
		Depth:      4,
		ObsBefore:  true,
		ReopenLeaf: true,
		DepthFor: func(c core.Cfg) int {
			d := 4
			if c.Mode == core.K {
				d = 5 // 9-op alphabet
			}
			if c.RW == core.M {
				d = 3
			}
			if tier == "thorough" {
				d++
			}
			return d
		},
		Judge: func(c *eng.Ctx) {
			dirFeatures(c)
			last := c.Ops[len(c.Ops)-1]
			if c.Last.Panic != "" {
				c.Add("C15", "panic", callNamesOf(c), c.Last.Panic)
				return
			}
			merged := false
			for _, o := range c.Ops {
				if o.Kind == "merge" {
					merged = true
				}
			}
			if last.Kind == "merge" {
				if c.Last.Err {
					c.Feature("merge-returned-error")
				} else {
					c.Feature("merge-succeeded")
				}
				if d := core.DiffObs(c.Queries, c.ObsPrev, c.Obs); len(d) > 0 {
					c.AddBad("C15", "merge-changed-reads", d)
					return
				}
				if c.ReopenErr != nil {
					c.Add("C15", "open-error-after-merge", eng.ErrClass(c.ReopenErr.Error()), c.ReopenErr.Error())
					return
				}
				if d := core.DiffObs(c.Queries, c.ObsPrev, c.ObsReopen); len(d) > 0 {
					c.AddBad("C15", "merge-changed-reads-after-reopen", d)
				}
				return
			}
			if !merged {
				// histories without Merge are other properties' business; keep them as start states
				if len(c.Last.Bad) > 0 || c.ReopenErr != nil {
					c.Add("SETUP", "setup-failed", last.String())
				}
				return
			}
			c.Feature("write-after-merge")
			eng.JudgeModel(c, "C15")
			if len(c.Leaf.Viol) > 0 {
				return
			}
			if c.ReopenErr != nil {
				c.Add("C15", "open-error-after-merge", eng.ErrClass(c.ReopenErr.Error()), c.ReopenErr.Error())
				return
			}
			if d := core.DiffObs(c.Queries, c.Obs, c.ObsReopen); len(d) > 0 {
				c.AddBad("C15", "post-merge-write-lost-on-reopen", d)
			}
		},
	}
	return p
}

// ---------------------------------------------------------------- C19: storage options do not change results

func c19Variants(kvOnly bool) []core.Cfg {
	var out []core.Cfg
	seg := int64(100)
	if kvOnly {
		seg = 88 // two records of the smallest size fill a segment exactly
	}
	modes := []int{core.KV, core.K}
	if !kvOnly {
		modes = []int{core.KV}
	}
	for _, m := range modes {
		for _, rw := range []int{core.F, core.M} {
			for _, st := range []int{core.F, core.M} {
				for _, sy := range []bool{false, true} {
					out = append(out, core.Cfg{Mode: m, RW: rw, Start: st, Sync: sy, Seg: seg})
				}
			}
		}
	}
	if kvOnly {
		out = append(out, core.Cfg{Mode: core.S, RW: core.F, Start: core.F, Seg: seg}, core.Cfg{Mode: core.S, RW: core.M, Start: core.M, Sync: true, Seg: seg})
	}
	return out
}

type c19Trace struct {
	steps []string
	obs   []core.Res
	reobs []core.Res
	fail  string
}

func c19Run(cfg core.Cfg, ops []core.Op, queries []core.Call) c19Trace {
	var t c19Trace
	in := core.OpenInst(cfg)
	defer in.Discard()
	if in.OpenErr != nil {
		t.fail = "open: " + in.OpenErr.Error()
		return t
	}
	for _, op := range ops {
		r := in.Apply(op)
		s := fmt.Sprintf("err=%v", r.Err)
		for i, cr := range r.Calls {
			if op.Calls[i].F == "SPop" && !cr.Err {
				s += " ok:<member>" // any member is a correct answer
				continue
			}
			s += " " + cr.String()
		}
		t.steps = append(t.steps, s)
		if in.Poisoned != "" || in.DB == nil {
			t.fail = "unusable after " + op.String() + ": " + r.Msg + r.Panic
			return t
		}
	}
	t.obs, _ = in.Observe(queries)
	if err := in.DB.Close(); err != nil {
		t.fail = "close: " + err.Error()
		return t
	}
	in.DB = nil
	in2 := &core.Inst{Cfg: cfg, Dir: in.Dir, Model: in.Model}
	func() {
		defer func() {
			if r := recover(); r != nil {
				t.fail = fmt.Sprintf("open panicked: %v", r)
			}
		}()
		db, err := eng.NutsOpen(in2)
		if err != nil {
			t.fail = "reopen: " + err.Error()
			return
		}
		in2.DB = db
		t.reobs, _ = in2.Observe(queries)
		db.Close()
	}()
	return t
}

func c19Profile(tier string, kvOnly bool) *eng.Profile {
	name := "mixed"
	if kvOnly {
		name = "kv"
	}
	base := core.Cfg{Mode: core.KV, RW: core.F, Start: core.F, Seg: 100}
	if kvOnly {
		base.Seg = 88
	}
	var ops []core.Op
	var queries []core.Call
	if kvOnly {
		ops = kvOps([]string{"a"}, []string{"a", "ab"}, true)
		queries = kvObs([]string{"a", "zz"}, []string{"a", "ab", "b", "zz"}, []string{"", "a", "ab", "b", "c"}, []string{"", "a", "b"}, false)
	} else {
		for _, o := range mixedOps(base, true) {
			hasSPop := false
			for _, c := range o.Calls {
				if c.F == "SPop" {
					hasSPop = true // any member is a correct answer, so the contents differ legitimately
				}
			}
			if !hasSPop {
				ops = append(ops, o)
			}
		}
		queries = mixedObs()
	}
	variants := c19Variants(kvOnly)
	p := &eng.Profile{ID: "C19", Name: name, Cfgs: []core.Cfg{base},
		Ops: func(core.Cfg) []core.Op { return ops }, Obs: func(core.Cfg) []core.Call { return queries }, Depth: 2, NoKappa: true,
		Run: func(p *eng.Profile, cfg core.Cfg, hist []core.Op, leaf *eng.Leaf) {
			c19Compare(base, variants, kvOnly, hist, queries, leaf)
		},
	}
	if tier == "thorough" {
		p.Depth = 3
	}
	return p
}

// c19Compare runs one history under the baseline and under every variant and records the differences.
func c19Compare(base core.Cfg, variants []core.Cfg, kvOnly bool, hist []core.Op, queries []core.Call, leaf *eng.Leaf) {
	ref := c19Run(base, hist, queries)
	leaf.ObsHash = core.Hash(fmt.Sprint(ref.obs))
	leaf.ModelHash = leaf.ObsHash
	leaf.Nontrivial = true
	if ref.fail != "" {
		// the baseline itself fails: other properties' business
		leaf.NoExpand = true
		return
	}
	for _, v := range variants {
		if v == base {
			continue
		}
		leaf.Evals += len(queries)*2 + len(hist)
		t := c19Run(v, hist, queries)
		add := func(kind string, atoms []string, detail ...string) {
			leaf.Viol = append(leaf.Viol, eng.Violation{Prop: "C19", Kind: kind, Cfg: v, Ops: hist, Detail: detail, Atoms: atoms, What: atoms[0], Tags: nil,
				Extra: map[string]interface{}{"variant": v.String()}})
		}
		if t.fail != "" {
			add("variant-failed", []string{eng.ErrClass(t.fail)}, v.String()+": "+t.fail)
			continue
		}
		for i := range ref.steps {
			if i < len(t.steps) && ref.steps[i] != t.steps[i] {
				add("call-diff", []string{hist[i].Kind + ":" + eng.CallNames(hist[i])}, fmt.Sprintf("%s op %d %s: baseline %s, variant %s", v, i+1, hist[i], ref.steps[i], t.steps[i]))
				break
			}
		}
		qs := queries
		if v.Mode != core.KV && !kvOnly {
			continue
		}
		if d := core.DiffObs(qs, ref.obs, t.obs); len(d) > 0 {
			var atoms, det []string
			for _, m := range d {
				atoms = append(atoms, m.Atom())
				det = append(det, v.String()+" "+m.String())
			}
			add("obs-diff", uniq(atoms), det...)
		} else if d := core.DiffObs(qs, ref.reobs, t.reobs); len(d) > 0 {
			var atoms, det []string
			for _, m := range d {
				atoms = append(atoms, m.Atom())
				det = append(det, v.String()+" after reopen "+m.String())
			}
			add("reopen-obs-diff", uniq(atoms), det...)
		}
	}
	if len(leaf.Viol) > 0 {
		leaf.NoExpand = true
	}
}

func uniq(in []string) []string {
	seen := map[string]bool{}
	var out []string
	for _, s := range in {
		if !seen[s] {
			seen[s] = true
			out = append(out, s)
		}
	}
	return out
}

func init() {
	profileBuilders = append(profileBuilders, func(tier string) {
		Register(c12Profile(tier))
		Register(c15Profile(tier))
		Register(c19Profile(tier, true))
		Register(c19Profile(tier, false))
	})
	Registry["C15"] = func(r *Run) {
		r.Rule = "every sequence of <=depth ops over {KV put/TTL put/delete, failed transaction, list push/pop/set, set add/rem, zset add/rem, tick, reopen, Merge} with two-record segments in both RAM index modes; for every Merge transition the full observation before = after (whether Merge returns nil or an error) and = after close+reopen; writes after a Merge are checked against the reference model and after reopen; plus long deterministic families (n puts cycling over k keys with deletes and expiring puts, Merge, m more writes, Merge, tick, reopen, write, Merge, reopen over the whole parameter grid) judged after every step"
		r.Assume = []string{"no transaction runs concurrently with Merge (C17 covers that)"}
		r.Required = []string{"merge-succeeded", "merge-returned-error", "write-after-merge", "rotated", "tick"}
		r.Explore(c15Profile(r.Tier), "C15")
		runLong(r)
		runValues(r, "C15", true, []int{core.KV, core.K})
	}
	Registry["C19"] = func(r *Run) {
		r.Rule = "every sequence of <=depth ops (KV alphabet: depth 3, in 16 RAM-mode option combinations RWMode x StartFileLoadingMode x SyncEnable x {KeyVal,Key} + 2 sparse; mixed alphabet: depth 2, 8 combinations) is executed under every combination; per-call results, the final observation and the observation after close+reopen are compared with the baseline configuration KV/FileIO/FileIO/nosync - no reference model involved; plus long deterministic KV families (4..9, thorough 14, single-put transactions in three key orders, reopen, overwrites/deletes, reopen; segment sizes 100/150/200/260) under all 18 combinations"
		r.Assume = []string{"SPop may return any member, its value is not compared across configurations"}
		r.Explore(c19Profile(r.Tier, true), "C19")
		r.Explore(c19Profile(r.Tier, false), "C19")
		runC19Long(r)
	}
}
