package checks

// c09CrashPart is replaced when the E2 engine is wired in.
var c09CrashPart = func(r *Run) {}
