package checks

import (
	"fmt"
	"strings"

	"verif/mc/core"
	"verif/mc/eng"
)

func withRW(base []core.Cfg) []core.Cfg {
	var out []core.Cfg
	for _, c := range base {
		for _, rw := range []int{core.F, core.M} {
			for _, st := range []int{core.F, core.M} {
				d := c
				d.RW, d.Start = rw, st
				out = append(out, d)
			}
		}
	}
	return out
}

// ---------------------------------------------------------------- C08: clean reopen preserves every result

// c08ManyFiles: one record per segment file (seg=50) and transactions of six records, so that a
// history of three ops spreads its data over up to 18 files: file ids with two digits, keys
// overwritten and deleted in much later files, list elements spread over many files.
func c08ManyFilesProfile(tier string) *eng.Profile {
	six := func(f func(i int) core.Call) core.Op {
		var cs []core.Call
		for i := 0; i < 6; i++ {
			cs = append(cs, f(i))
		}
		return up(cs...)
	}
	k := func(i int) string { return string(rune('a' + i)) }
	ops := []core.Op{
		six(func(i int) core.Call { return core.Call{F: "Put", B: "b", K: k(i), V: "1"} }),
		six(func(i int) core.Call { return core.Call{F: "Put", B: "b", K: k(5 - i), V: "2"} }),
		six(func(i int) core.Call {
			if i%2 == 0 {
				return core.Call{F: "Delete", B: "b", K: k(i)}
			}
			return core.Call{F: "Put", B: "b", K: k(i), V: "3"}
		}),
		six(func(i int) core.Call { return core.Call{F: "RPush", B: "l", K: "k", Vs: []string{k(i)}} }),
		six(func(i int) core.Call {
			if i < 3 {
				return core.Call{F: "LPop", B: "l", K: "k"}
			}
			return core.Call{F: "LPush", B: "l", K: "k", Vs: []string{"x" + k(i)}}
		}),
		six(func(i int) core.Call { return core.Call{F: "ZAdd", B: "z", K: k(i % 3), X: float64(i), V: k(i)} }),
		six(func(i int) core.Call { return core.Call{F: "SAdd", B: "s", K: "k", Vs: []string{k(i)}} }),
		six(func(i int) core.Call { return core.Call{F: "SRem", B: "s", K: "k", Vs: []string{k(i + 3)}} }),
		{Kind: "reopen"},
	}
	// twelve records in one transaction: file ids reach two digits in ONE op, so that "restart,
	// then write again, then restart" fits the depth
	var twelve []core.Call
	for i := 0; i < 12; i++ {
		twelve = append(twelve, core.Call{F: "Put", B: "b", K: k(i % 6), V: fmt.Sprintf("t%d", i)})
	}
	ops = append([]core.Op{up(twelve...)}, ops...)
	var qs []core.Call
	for i := 0; i < 6; i++ {
		qs = append(qs, core.Call{F: "Get", B: "b", K: k(i)})
	}
	qs = append(qs, core.Call{F: "GetAll", B: "b"}, core.Call{F: "LRange", B: "l", K: "k", I: 0, J: -1}, core.Call{F: "SMembers", B: "s", K: "k"},
		core.Call{F: "ZRangeByRank", B: "z", I: 1, J: -1}, core.Call{F: "ZMembers", B: "z"})
	kvOnly := func(o []core.Op) []core.Op { return append(append([]core.Op(nil), o[:4]...), o[len(o)-1]) }
	p := &eng.Profile{ID: "C08", Name: "many-files",
		Cfgs: []core.Cfg{{Mode: core.KV, Seg: 50}, {Mode: core.KV, RW: core.M, Start: core.M, Seg: 50}, {Mode: core.K, Seg: 50}, {Mode: core.S, Seg: 50}},
		Ops: func(cfg core.Cfg) []core.Op {
			if cfg.Mode == core.KV {
				return ops
			}
			return kvOnly(ops)
		},
		Obs: func(cfg core.Cfg) []core.Call {
			if cfg.Mode == core.KV {
				return qs
			}
			return qs[:7]
		},
		Depth: 3, ReopenLeaf: true,
		Judge: func(c *eng.Ctx) {
			if c.Last.Panic != "" {
				c.Add("C20", "panic", callNamesOf(c), c.Last.Panic)
				return
			}
			if m, _ := filepathGlob(c.Inst.Dir + "/*.dat"); len(m) > 10 {
				c.Feature("more-than-10-segment-files")
			}
			eng.JudgeReopen(c, "C09", "C08")
		},
	}
	if tier == "thorough" {
		p.Depth = 4
	}
	return p
}

func c08Profile(tier string) *eng.Profile {
	p := &eng.Profile{ID: "C08", Name: "mixed-reopen",
		Cfgs: []core.Cfg{
			{Mode: core.KV, RW: core.F, Start: core.F, Seg: 100}, {Mode: core.KV, RW: core.M, Start: core.M, Seg: 100},
			{Mode: core.K, RW: core.F, Start: core.F, Seg: 100}, {Mode: core.S, RW: core.F, Start: core.F, Seg: 100},
		},
		Ops:        func(cfg core.Cfg) []core.Op { return mixedOps(cfg, true) },
		Obs:        mixedObsFor,
		Depth:      3,
		ReopenLeaf: true,
		Judge: func(c *eng.Ctx) {
			dirFeatures(c)
			if c.Last.Panic != "" {
				c.Add("C20", "panic", callNamesOf(c), c.Last.Panic)
				return
			}
			eng.JudgeReopen(c, "C09", "C08")
			noopFeatures(c)
		},
	}
	if tier == "thorough" {
		p.Depth = 4
		p.DepthFor = func(c core.Cfg) int {
			if c.Mode == core.KV {
				return 3 // 45-op alphabet: depth 4 is 4M histories; the KV-only modes go to 4
			}
			return 4
		}
	}
	return p
}

func callNamesOf(c *eng.Ctx) string {
	last := c.Ops[len(c.Ops)-1]
	var n []string
	for _, cl := range last.Calls {
		n = append(n, cl.F)
	}
	return last.Kind + ":" + strings.Join(n, ";")
}

func noopFeatures(c *eng.Ctx) {
	last := c.Ops[len(c.Ops)-1]
	if len(last.Calls) > 1 {
		c.Feature("multi-call-tx")
	}
	if last.IgnoreErr {
		c.Feature("commit-time-noop-candidate")
	}
}

// ---------------------------------------------------------------- C09 (clean part): Open succeeds

func c09Profiles(tier string) []*eng.Profile {
	judge := func(c *eng.Ctx) {
		dirFeatures(c)
		if c.Last.Panic != "" {
			return
		}
		if c.Last.Err && c.Ops[len(c.Ops)-1].Kind == "reopen" {
			c.Add("C09", "open-error", eng.ErrClass(c.Last.Msg), c.Last.Msg)
			return
		}
		eng.JudgeReopen(c, "C09", "")
		if st, ok := exactFill(c); ok && st {
			c.Feature("exact-fill-segment")
		}
	}
	d := 2
	if tier == "thorough" {
		d = 3
	}
	mixed := &eng.Profile{ID: "C09", Name: "mixed", Depth: d, ReopenLeaf: true, Judge: judge,
		Cfgs: withRW([]core.Cfg{{Mode: core.KV, Seg: 100}, {Mode: core.KV, Seg: 90}, {Mode: core.K, Seg: 90}, {Mode: core.S, Seg: 90}}),
		Ops:  func(cfg core.Cfg) []core.Op { return mixedOps(cfg, true) },
		Obs:  mixedObsFor,
	}
	kv := &eng.Profile{ID: "C09", Name: "kv", Depth: d + 1, ReopenLeaf: true, Judge: judge,
		Cfgs: withRW([]core.Cfg{{Mode: core.KV, Seg: 88}, {Mode: core.S, Seg: 88}}),
		Ops:  func(core.Cfg) []core.Op { return kvOps([]string{"a"}, []string{"a", "b"}, true) },
		Obs: func(core.Cfg) []core.Call {
			return kvObs([]string{"a", "zz"}, []string{"a", "b"}, []string{"", "b"}, []string{"", "a"}, false)
		},
	}
	return []*eng.Profile{mixed, kv}
}

// exactFill reports whether some data segment is exactly full.
func exactFill(c *eng.Ctx) (bool, bool) {
	return core.HasExactFill(c.Inst.Dir, c.Cfg.Seg), true
}

// ---------------------------------------------------------------- C13: write transactions are serializable

func c13Profile(tier string) *eng.Profile {
	setup := []core.Op{
		up(core.Call{F: "Put", B: bKV, K: "a", V: "x"}),
		up(core.Call{F: "RPush", B: bL, K: "k", Vs: []string{"a"}}),
		up(core.Call{F: "RPush", B: bL, K: "k", Vs: []string{"b"}}),
		up(core.Call{F: "RPush", B: bL, K: "j", Vs: []string{"p"}}),
		up(core.Call{F: "SAdd", B: bS, K: "k", Vs: []string{"m"}}),
		up(core.Call{F: "SAdd", B: bS, K: "j", Vs: []string{"n"}}),
		up(core.Call{F: "SAdd", B: bS, K: "j", Vs: []string{"m"}}),
		up(core.Call{F: "ZAdd", B: bZ, K: "a", X: 1, V: "va"}),
		up(core.Call{F: "ZAdd", B: bZ, K: "b", X: 2, V: "vb"}),
	}
	lst := []core.Call{
		{F: "RPush", B: bL, K: "k", Vs: []string{"d"}}, {F: "LPush", B: bL, K: "k", Vs: []string{"e"}},
		{F: "LPop", B: bL, K: "k"}, {F: "RPop", B: bL, K: "k"}, {F: "LRem", B: bL, K: "k", I: 0, V: "a"},
		{F: "LSet", B: bL, K: "k", I: 0, V: "w"}, {F: "LTrim", B: bL, K: "k", I: 0, J: 0},
		{F: "LSet", B: bL, K: "k", I: 1, V: "v"}, {F: "LTrim", B: bL, K: "k", I: 1, J: -1}, {F: "LSet", B: bL, K: "j", I: 0, V: "u"},
		{F: "LRange", B: bL, K: "k", I: 0, J: -1}, {F: "LSize", B: bL, K: "k"}, {F: "LPeek", B: bL, K: "k"}, {F: "RPeek", B: bL, K: "k"},
	}
	set := []core.Call{
		{F: "SAdd", B: bS, K: "k", Vs: []string{"p"}}, {F: "SRem", B: bS, K: "k", Vs: []string{"m"}}, {F: "SPop", B: bS, K: "k"},
		{F: "SMoveByOneBucket", B: bS, K: "k", K2: "j", V: "m"}, {F: "SRem", B: bS, K: "j", Vs: []string{"m"}},
		{F: "SIsMember", B: bS, K: "k", V: "p"}, {F: "SIsMember", B: bS, K: "k", V: "m"}, {F: "SMembers", B: bS, K: "k"}, {F: "SCard", B: bS, K: "k"},
		{F: "SMembers", B: bS, K: "j"},
	}
	zs := []core.Call{
		{F: "ZAdd", B: bZ, K: "c", X: 3, V: "vc"}, {F: "ZRem", B: bZ, K: "a"}, {F: "ZPopMax", B: bZ}, {F: "ZPopMin", B: bZ},
		{F: "ZRemRangeByRank", B: bZ, I: 1, J: 1},
		{F: "ZScore", B: bZ, K: "c"}, {F: "ZScore", B: bZ, K: "a"}, {F: "ZCard", B: bZ}, {F: "ZRangeByRank", B: bZ, I: 1, J: -1},
		{F: "ZPeekMax", B: bZ}, {F: "ZPeekMin", B: bZ}, {F: "ZRank", B: bZ, K: "b"},
	}
	kv := []core.Call{
		{F: "Put", B: bKV, K: "a", V: "1"}, {F: "Delete", B: bKV, K: "a"},
		{F: "Get", B: bKV, K: "a"}, {F: "GetAll", B: bKV}, {F: "PrefixScan", B: bKV, K: "", I: 0, J: -1}, {F: "RangeScan", B: bKV, K: "", K2: "z"},
	}
	var dep []core.Op
	nMut := map[string]int{"l": 10, "s": 5, "z": 5, "kv": 2}
	for name, calls := range map[string][]core.Call{"l": lst, "s": set, "z": zs, "kv": kv} {
		_ = name
		for i := 0; i < nMut[name]; i++ {
			for j := range calls {
				dep = append(dep, upIgn(calls[i], calls[j]))
			}
		}
	}
	// three writes to one key (and a second key) in one transaction: the committed state must be the
	// last write in call order
	kv3 := []core.Call{{F: "Put", B: bKV, K: "a", V: "1"}, {F: "Put", B: bKV, K: "a", V: "2"}, {F: "Delete", B: bKV, K: "a"}, {F: "Put", B: bKV, K: "ab", V: "3"}}
	for _, c1 := range kv3 {
		for _, c2 := range kv3 {
			for _, c3 := range kv3 {
				dep = append(dep, upIgn(c1, c2, c3))
			}
		}
	}
	// deterministic order (map iteration above is random): sort by rendering
	sortOps(dep)
	if tier == "thorough" {
		// three-call bodies: mutator, mutator, reader for lists and sorted sets
		for _, grp := range [][]core.Call{lst, zs} {
			nm := 10
			if grp[0].F == "ZAdd" {
				nm = 5
			}
			for i := 0; i < nm; i++ {
				for j := 0; j < nm; j++ {
					for k := nm; k < len(grp); k++ {
						dep = append(dep, upIgn(grp[i], grp[j], grp[k]))
					}
				}
			}
		}
	}
	ops := append(append([]core.Op(nil), setup...), dep...)
	return &eng.Profile{ID: "C13", Name: "dependent",
		Cfgs:  []core.Cfg{{Mode: core.KV, Seg: 1000}},
		Ops:   func(core.Cfg) []core.Op { return ops },
		Obs:   mixedObsFor,
		Depth: 3,
		Judge: func(c *eng.Ctx) {
			last := c.Ops[len(c.Ops)-1]
			if len(last.Calls) < 2 {
				// a set-up op: its own correctness is C05-C07's business
				if len(c.Last.Bad) > 0 || len(c.Last.Notes) > 0 || c.Last.Panic != "" {
					c.Add("SETUP", "setup-failed", last.String())
				}
				return
			}
			c.Leaf.NoExpand = true
			c.Feature("dependent-body")
			eng.JudgeModel(c, "C13")
		},
	}
}

func sortOps(ops []core.Op) {
	for i := 1; i < len(ops); i++ {
		for j := i; j > 0 && ops[j].String() < ops[j-1].String(); j-- {
			ops[j], ops[j-1] = ops[j-1], ops[j]
		}
	}
}

func init() {
	profileBuilders = append(profileBuilders, func(tier string) {
		Register(c08Profile(tier))
		Register(c08ManyFilesProfile(tier))
		for _, p := range c09Profiles(tier) {
			Register(p)
		}
		Register(c13Profile(tier))
	})
	Registry["C08"] = func(r *Run) {
		r.Rule = "every sequence of <=depth ops over the mixed alphabet (KV with TTL/delete, list, set, sorted set; single- and multi-call bodies including calls that are no-ops at commit time); plus a many-files profile (one record per segment, six-record transactions: up to 18 files per history, two-digit file ids); at EVERY explored state the database is closed and reopened with the same options and the full observation (all buckets, all structures) before Close is compared query by query with the observation after Open; reopen is also an op, so histories continue from reopened states; plus the long deterministic KV families of C02 (reopen in the middle and at the end) in MMap and FileIO configurations, judged against the reference model after every step"
		r.Assume = []string{"list/set/zset ops only in HintKeyValAndRAMIdxMode (documented as the only mode supporting them)", "an Open error is C09's violation, not C08's"}
		r.Required = []string{"reopen-at-leaf", "rotated", "multi-call-tx", "commit-time-noop-candidate", "more-than-10-segment-files"}
		r.Explore(c08Profile(r.Tier), "C08")
		r.Explore(c08ManyFilesProfile(r.Tier), "C08")
		// long histories with reopens in the middle: commits that reach the end of a segment which
		// was the active one at Open (judged against the reference model after every step)
		runKVLong(r, "C08", []core.Cfg{{Mode: core.KV, RW: core.M, Start: core.M, Seg: 392}, {Mode: core.K, RW: core.M, Start: core.M, Seg: 410}, {Mode: core.KV, Seg: 300}})
	}
	Registry["C13"] = func(r *Run) {
		r.Rule = "from every start state reached by <=2 set-up ops, every two-call (thorough: three-call) write transaction in which the second call reads, pops or modifies what the first call wrote (lists, sets, sorted sets, KV: all mutator x call pairs); per-call results and the state after Commit are compared with the sequential composition of the calls on the reference model; plus wide transactions: one transaction of 13..26 order-sensitive calls (pushes, repeated puts, re-scored members, set adds) alternating between two or three buckets in several bucket orders, state after Commit and after reopen vs the model"
		r.Assume = []string{"bodies ignore call errors so that calls invalidated inside the transaction reach Commit"}
		r.Required = []string{"dependent-body"}
		r.Explore(c13Profile(r.Tier), "C13")
		runC13Wide(r)
	}
}
