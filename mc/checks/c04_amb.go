package checks

import (
	"encoding/json"
	"fmt"

	"verif/mc/core"
	"verif/mc/eng"
)

// C04 ambiguity families: (bucket, key) pairs whose concatenation coincides - ("a","bc") and
// ("ab","c"), ("","ab") and ("a","b") - holding the SAME member / element / value in every
// structure; written, rotated out of the active segment, merged, reopened, then removed from
// one of the two and merged and reopened again.  Any code that identifies an entry by the
// concatenated bytes (an index key, a de-duplication map, a tombstone lookup) confuses the two.
// Judged against the reference model after every step.

type c04AmbJob struct {
	Mode int `json:"mode"`
	RW   int `json:"rw"`
}

func c04AmbHistories(mode int) (hists [][]core.Op, names []string, queries []core.Call) {
	pairs := [][2][2]string{{{"a", "bc"}, {"ab", "c"}}, {{"", "ab"}, {"a", "b"}}, {{"ab", "c"}, {"a", "bc"}}}
	type st struct {
		name     string
		add, rem func(b, k string) core.Op
	}
	structs := []st{
		{"kv", func(b, k string) core.Op { return up(core.Call{F: "Put", B: b, K: k, V: "d"}) }, func(b, k string) core.Op { return up(core.Call{F: "Delete", B: b, K: k}) }},
	}
	if mode == core.KV {
		structs = append(structs,
			st{"set", func(b, k string) core.Op { return up(core.Call{F: "SAdd", B: b, K: k, Vs: []string{"d"}}) }, func(b, k string) core.Op { return up(core.Call{F: "SRem", B: b, K: k, Vs: []string{"d"}}) }},
			st{"list", func(b, k string) core.Op { return up(core.Call{F: "RPush", B: b, K: k, Vs: []string{"d"}}) }, func(b, k string) core.Op { return up(core.Call{F: "LPop", B: b, K: k}) }},
			st{"zset", func(b, k string) core.Op { return up(core.Call{F: "ZAdd", B: b, K: k, X: 1, V: "d"}) }, func(b, k string) core.Op { return up(core.Call{F: "ZRem", B: b, K: k}) }},
		)
	}
	fill := func(i int) core.Op { return up(core.Call{F: "Put", B: "zz", K: fmt.Sprintf("f%d", i), V: "x"}) }
	seenQ := map[string]bool{}
	addQ := func(c core.Call) {
		if !seenQ[c.String()] {
			seenQ[c.String()] = true
			queries = append(queries, c)
		}
	}
	for _, pr := range pairs {
		for _, p := range pr {
			b, k := p[0], p[1]
			addQ(core.Call{F: "Get", B: b, K: k})
			addQ(core.Call{F: "GetAll", B: b})
			if mode == core.KV {
				addQ(core.Call{F: "SMembers", B: b, K: k})
				addQ(core.Call{F: "LRange", B: b, K: k, I: 0, J: -1})
				addQ(core.Call{F: "ZMembers", B: b})
				addQ(core.Call{F: "ZScore", B: b, K: k})
			}
		}
		for _, s := range structs {
			for _, withMerge := range []bool{true, false} {
				if withMerge && (mode == core.S || s.name == "list") {
					continue // no Merge in sparse mode; Merge does not preserve lists (known finding of C15)
				}
				a, b := pr[0], pr[1]
				h := []core.Op{s.add(a[0], a[1]), s.add(b[0], b[1]), fill(0), fill(1), fill(2)}
				if withMerge {
					h = append(h, core.Op{Kind: "merge"})
				}
				h = append(h, core.Op{Kind: "reopen"}, s.rem(a[0], a[1]), fill(3), fill(4))
				if withMerge {
					h = append(h, core.Op{Kind: "merge"})
				}
				h = append(h, core.Op{Kind: "reopen"}, s.add(a[0], a[1]), core.Op{Kind: "reopen"})
				hists = append(hists, h)
				names = append(names, fmt.Sprintf("%s (%q,%q)/(%q,%q) merge=%v", s.name, a[0], a[1], b[0], b[1], withMerge))
			}
		}
	}
	if mode == core.KV {
		// the same KEY NAMES in two buckets: a cross-bucket move must look each key up in its own bucket
		for _, bp := range [][2]string{{"a", "ab"}, {"ab", "a"}, {"", "a"}} {
			b1, b2 := bp[0], bp[1]
			for _, q := range []core.Call{{F: "SMembers", B: b1, K: "src"}, {F: "SMembers", B: b1, K: "dst"}, {F: "SMembers", B: b2, K: "dst"}, {F: "SMembers", B: b2, K: "src"}} {
				addQ(q)
			}
			h := []core.Op{
				up(core.Call{F: "SAdd", B: b1, K: "src", Vs: []string{"x"}}), up(core.Call{F: "SAdd", B: b1, K: "dst", Vs: []string{"x"}}),
				up(core.Call{F: "SAdd", B: b2, K: "dst", Vs: []string{"y"}}), up(core.Call{F: "SAdd", B: b2, K: "src", Vs: []string{"x"}}),
				up(core.Call{F: "SMoveByTwoBuckets", B: b1, K: "src", B2: b2, K2: "dst", V: "x"}),
				{Kind: "reopen"},
				up(core.Call{F: "SMoveByTwoBuckets", B: b2, K: "src", B2: b1, K2: "src", V: "x"}),
				{Kind: "reopen"},
			}
			hists = append(hists, h)
			names = append(names, fmt.Sprintf("cross-bucket SMove with equal key names in %q and %q", b1, b2))
		}
	}
	return
}

func c04AmbWorker(arg json.RawMessage) interface{} {
	var j c04AmbJob
	json.Unmarshal(arg, &j)
	out := &longOut{}
	cfg := core.Cfg{Mode: j.Mode, RW: j.RW, Start: j.RW, Seg: 100}
	hists, names, queries := c04AmbHistories(j.Mode)
	seen := map[string]bool{}
	for i, ops := range hists {
		out.Histories++
		in := core.OpenInst(cfg)
		for si, op := range ops {
			r := in.Apply(op)
			out.Steps++
			add := func(kind string, bad []core.Mismatch, detail string) {
				v := eng.Violation{Prop: "C04", Kind: kind, Cfg: cfg, Ops: ops[:si+1], Tags: []string{"ambiguous-names"}, Extra: map[string]interface{}{"profile": "long"}}
				for _, mm := range bad {
					v.Atoms = append(v.Atoms, mm.Atom())
					v.Detail = append(v.Detail, mm.String())
				}
				if len(v.Atoms) == 0 {
					v.Atoms = []string{kind}
				}
				v.Atoms = uniq(v.Atoms)
				v.What = v.Atoms[0]
				v.Detail = append([]string{fmt.Sprintf("ambiguity family %s, step %d %s: %s", names[i], si+1, op, detail)}, v.Detail...)
				if k := kind + v.What; !seen[k] {
					seen[k] = true
					out.Viol = append(out.Viol, v)
				}
			}
			if r.Panic != "" {
				add("panic", nil, r.Panic)
				break
			}
			if op.Kind == "reopen" && r.Err {
				add("open-error", nil, r.Msg)
				break
			}
			if op.Kind == "merge" {
				if !r.Err {
					out.MergeOK++
				}
			} else if len(r.Bad) > 0 || len(r.Notes) > 0 {
				add("call-result", r.Bad, fmt.Sprint(r.Notes))
				break
			}
			obs, err := in.Observe(queries)
			if err != nil {
				add("obs-failed", nil, err.Error())
				break
			}
			out.Evals += len(obs)
			if bad := core.CheckObs(in.Model, queries, obs); len(bad) > 0 {
				add("obs-mismatch", bad, "observation vs model")
				break
			}
		}
		in.Discard()
		if out.Sample == "" {
			out.Sample = fmt.Sprintf("%s: %s: %d steps", cfg, names[i], len(ops))
		}
	}
	return out
}

func runC04Amb(r *Run) {
	var args []interface{}
	for _, m := range []int{core.KV, core.K, core.S} {
		for _, rw := range []int{core.F, core.M} {
			args = append(args, c04AmbJob{Mode: m, RW: rw})
		}
	}
	r.Pool.ParallelCustom("c04amb", args, func(i int, raw json.RawMessage, okk bool) {
		var o longOut
		if !okk || json.Unmarshal(raw, &o) != nil {
			r.Col.Add(eng.Violation{Prop: "C04", Kind: "hang", What: "amb:worker-died", Atoms: []string{"amb:worker-died"}, Detail: []string{fmt.Sprintf("ambiguity job %+v hung or killed its worker", args[i])}})
			return
		}
		r.Stats.Transitions += o.Steps
		r.Stats.Evals += o.Evals
		r.Stats.Extra["ambiguity_histories"] += o.Histories
		r.Stats.Extra["ambiguity_merges_ok"] += o.MergeOK
		for k := 0; k < o.Histories; k++ {
			r.Stats.States[fmt.Sprintf("c04amb%d/%d", i, k)] = true
		}
		if o.Sample != "" && len(r.Stats.Samples) < 10 {
			r.Stats.Samples = append(r.Stats.Samples, "ambiguity family "+o.Sample)
		}
		for _, v := range o.Viol {
			r.Col.Add(v)
		}
	})
}

func init() { customHandlers["c04amb"] = c04AmbWorker }
