// Package checks defines one decision procedure per property (DESIGN.md section 5).
package checks

import (
	"encoding/json"
	"fmt"
	"io/ioutil"
	"os"
	"path/filepath"
	"sort"
	"strconv"
	"time"

	"verif/mc/core"
	"verif/mc/eng"
)

// Run is the context of one `vmc check`.
type Run struct {
	Prop     string
	Tier     string
	Seed     int64
	Root     string // /verif
	Pool     *eng.Pool
	Col      *eng.Collector
	Stats    *eng.Stats
	Start    time.Time
	Budget   time.Duration
	Level    string
	Rule     string
	Assume   []string
	Extra    map[string]interface{}
	Required []string // features that must be covered on a clean run (vacuity guard)
}

// Deadline reports whether the internal time budget is used up.
func (r *Run) Deadline() bool { return time.Since(r.Start) > r.Budget }

// Quick reports the tier.
func (r *Run) Quick() bool { return r.Tier != "thorough" }

// OnViol routes a violation to the collector when it belongs to one of the given properties.
func (r *Run) OnViol(props ...string) func(eng.Violation) {
	return func(v eng.Violation) {
		for _, p := range props {
			if v.Prop == p {
				v.Prop = r.Prop // violations of a sub-oracle are reported under the checked property
				r.Col.Add(v)
				return
			}
		}
		// a violation of another property's oracle met on the way (an Open error while checking
		// reopen equivalence, a panic, a set-up op that fails): none occurs on the unchanged tree, and
		// on a changed tree it means the histories of this check no longer do what they are meant to -
		// it is reported under the checked property, tagged with its origin, never dropped
		if r.Extra["foreign_violations"] == nil {
			r.Extra["foreign_violations"] = map[string]int{}
		}
		r.Extra["foreign_violations"].(map[string]int)[v.Prop]++
		v.Tags = append(append([]string(nil), v.Tags...), "from:"+v.Prop)
		v.Prop = r.Prop
		r.Col.Add(v)
	}
}

// Explore runs E1 for a profile.
func (r *Run) Explore(p *eng.Profile, props ...string) {
	if len(props) == 0 {
		props = []string{p.ID}
	}
	Register(p)
	r.Col.Minimise = r.minimiser()
	eng.Explore(p, r.Pool, r.Deadline, r.Stats, r.OnViol(props...))
}

// ExploreFiltered runs E1 for a profile and keeps only the violations accepted by keep.
func (r *Run) ExploreFiltered(p *eng.Profile, keep func(eng.Violation) bool, props ...string) {
	Register(p)
	r.Col.Minimise = nil
	on := r.OnViol(props...)
	eng.Explore(p, r.Pool, r.Deadline, r.Stats, func(v eng.Violation) {
		if keep(v) {
			on(v)
		}
	})
}

// Profiles is the registry used by workers, the minimiser and replay.
var Profiles = map[string]*eng.Profile{}

// Register makes a profile known by "<ID>/<Name>".
func Register(p *eng.Profile) { Profiles[p.ID+"/"+p.Name] = p }

func (r *Run) minimiser() func(eng.Violation) eng.Violation {
	return func(v eng.Violation) eng.Violation {
		name, _ := v.Extra["profile"].(string)
		p := Profiles[name]
		if p == nil || p.Run != nil || v.Kind == "hang" {
			return v
		}
		return eng.Minimise(p, v)
	}
}

// Finish writes the evidence, prints the verdict lines and returns the exit code.
func (r *Run) Finish() int {
	st := r.Stats
	nNew := r.Col.Report(r.Prop)
	var missing []string
	for _, f := range r.Required {
		if st.Features[f] == 0 {
			missing = append(missing, f)
		}
	}
	cov := map[string]interface{}{
		"states":                        len(st.States),
		"transitions":                   st.Transitions,
		"traces_validated_against_impl": st.Transitions,
		"evaluations":                   st.Evals,
		"distinct_nontrivial":           len(st.Nontrivial),
		"distinct_model_states":         len(st.Models),
		"distinct_outcomes":             len(st.Outcomes),
		"rule":                          r.Rule,
		"samples":                       st.Samples,
		"depth_completed":               st.DepthDone,
		"exhaustive":                    st.Exhaustive,
		"caps_hit":                      st.CapsHit,
		"covered_features":              st.Features,
		"per_config":                    st.PerCfg,
		"per_config_depth":              st.CfgDepth,
		"per_config_wall_s":             st.CfgWall,
		"known_findings_seen":           sortedKeys(r.Col.KnownSeen),
		"stale_known_findings":          r.Col.StaleKnown(r.Prop),
		"violating_histories":           r.Col.Total,
		"worker_crashes":                r.Pool.Crashes,
	}
	for k, v := range st.Extra {
		cov[k] = v
	}
	for k, v := range r.Extra {
		cov[k] = v
	}
	if len(st.Samples) == 0 {
		cov["samples"] = []string{"(none)"}
	}
	ev := map[string]interface{}{
		"property_id": r.Prop,
		"tier":        r.Tier,
		"seed":        r.Seed,
		"level":       r.Level,
		"coverage":    cov,
		"assumptions": r.Assume,
		"wall_s":      time.Since(r.Start).Seconds(),
		"violations":  nNew,
	}
	b, _ := json.MarshalIndent(ev, "", " ")
	evDir := filepath.Join(r.Root, "evidence")
	if d := os.Getenv("VERIF_EVIDENCE_DIR"); d != "" {
		evDir = d // self-test runs against mutated copies must not overwrite the real evidence
	}
	os.MkdirAll(evDir, 0755)
	if err := ioutil.WriteFile(filepath.Join(evDir, r.Prop+".json"), b, 0644); err != nil {
		fmt.Fprintf(os.Stderr, "HARNESS-ERROR: cannot write evidence: %v\n", err)
		return 2
	}
	fmt.Printf("%s %s: states=%d transitions=%d evaluations=%d distinct_nontrivial=%d outcomes=%d depth=%d exhaustive=%v violating_histories=%d known=%d new=%d wall=%.1fs\n",
		r.Prop, r.Tier, len(st.States), st.Transitions, st.Evals, len(st.Nontrivial), len(st.Outcomes), st.DepthDone, st.Exhaustive, r.Col.Total, len(r.Col.KnownSeen), nNew, time.Since(r.Start).Seconds())
	if nNew > 0 {
		return 1
	}
	if len(missing) > 0 && st.Exhaustive {
		fmt.Fprintf(os.Stderr, "VACUITY-GUARD: features never covered: %v\n", missing)
		return 2
	}
	return 0
}

func sortedKeys(m map[string]int) []string {
	ks := make([]string, 0, len(m))
	for k := range m {
		ks = append(ks, k)
	}
	sort.Strings(ks)
	return ks
}

// Check is a registered decision procedure.
type Check func(r *Run)

// Registry maps property ids to checks.
var Registry = map[string]Check{}

// AllProfiles builds every profile (for workers, replay) for a tier.
var profileBuilders []func(tier string)

// BuildProfiles registers all profiles of a tier.
func BuildProfiles(tier string) {
	for _, f := range profileBuilders {
		f(tier)
	}
}

// NewRun prepares a run.
func NewRun(prop, tier, root string) *Run {
	seed, _ := strconv.ParseInt(os.Getenv("VERIF_SEED"), 10, 64)
	budget := 5 * time.Minute
	if tier == "thorough" {
		budget = 40 * time.Minute
	}
	if s := os.Getenv("VERIF_BUDGET_S"); s != "" {
		if n, err := strconv.Atoi(s); err == nil {
			budget = time.Duration(n) * time.Second
		}
	}
	r := &Run{Prop: prop, Tier: tier, Seed: seed, Root: root, Start: time.Now(), Budget: budget,
		Stats: eng.NewStats(), Extra: map[string]interface{}{}, Level: "model_checking"}
	r.Pool = eng.NewPool(0, tier)
	replays := filepath.Join(root, "replays")
	if d := os.Getenv("VERIF_EVIDENCE_DIR"); d != "" {
		replays = filepath.Join(d, "replays")
	}
	r.Col = eng.NewCollector(eng.LoadFindings(filepath.Join(root, "known_findings.json")), replays)
	return r
}

// cfgs builds the cross product of configuration dimensions.
func cfgs(modes, rws []int, segs []int64) []core.Cfg {
	var out []core.Cfg
	for _, m := range modes {
		for _, rw := range rws {
			for _, s := range segs {
				out = append(out, core.Cfg{Mode: m, RW: rw, Start: rw, Seg: s})
			}
		}
	}
	return out
}
