package checks

import (
	"bytes"
	"encoding/json"
	"fmt"
	"sort"

	"github.com/xujiajun/nutsdb"

	"verif/mc/core"
	"verif/mc/eng"
)

// Wide tier of C01/C03 (DESIGN.md C01 "B+ tree shape"): the ordered-map mechanism itself.
// (i) every insertion order of n <= 8 (thorough 9) distinct keys into the exported BPTree,
// tombstone re-insertions included; (ii) multi-level trees: a monotone fill of n keys (ascending
// or descending, n = 24..40: the root fills up and inner nodes split) followed by EVERY sequence
// of <= 2 insertions into EVERY gap.  After every insertion: Find of every key, All, Range over
// all bound pairs of a grid, PrefixScan/PrefixSearchScan, and the structural invariants.

type wideJob struct {
	Kind  string `json:"kind"` // perm | fill
	N     int    `json:"n"`
	First int    `json:"first"` // perm: index of the first key (shard)
	Desc  bool   `json:"desc"`
	Extra int    `json:"extra"` // fill: number of extra insertions (1 or 2)
}

type wideOut struct {
	Trees    int             `json:"trees"`
	Inserts  int             `json:"inserts"`
	Queries  int             `json:"queries"`
	MaxDepth int             `json:"max_depth"`
	Viol     []eng.Violation `json:"viol"`
	Sample   string          `json:"sample"`
}

func wkey(i int) []byte { return []byte(fmt.Sprintf("k%03d", i)) }

func wideCheckTree(t *nutsdb.BPTree, present map[string]bool, out *wideOut, full bool) string {
	if msg := nutsdb.VerifTreeCheck(t); msg != "" {
		return "invariant: " + msg
	}
	var keys []string
	for k := range present {
		keys = append(keys, k)
	}
	sort.Strings(keys)
	for _, k := range keys {
		out.Queries++
		r, err := t.Find([]byte(k))
		if err != nil || r == nil {
			return fmt.Sprintf("Find(%q) fails for an inserted key: %v", k, err)
		}
		if !bytes.Equal(nutsdb.VerifRecordKey(r), []byte(k)) {
			return fmt.Sprintf("Find(%q) returns the record of %q", k, nutsdb.VerifRecordKey(r))
		}
	}
	out.Queries++
	if _, err := t.Find([]byte("k~absent")); err == nil {
		return "Find of an absent key succeeds"
	}
	recs, _ := t.All()
	out.Queries++
	if msg := sameKeys("All", recs, keys); msg != "" {
		return msg
	}
	if !full {
		return ""
	}
	// ranges over a grid of bounds that straddle keys
	var bounds []string
	step := len(keys)/6 + 1
	for i := 0; i < len(keys); i += step {
		bounds = append(bounds, keys[i], keys[i]+"!")
	}
	bounds = append(bounds, "", "k", "l")
	for _, s := range bounds {
		for _, e := range bounds {
			if s > e {
				continue
			}
			var want []string
			for _, k := range keys {
				if k >= s && k <= e {
					want = append(want, k)
				}
			}
			recs, _ := t.Range([]byte(s), []byte(e))
			out.Queries++
			if msg := sameKeys(fmt.Sprintf("Range(%q,%q)", s, e), recs, want); msg != "" {
				return msg
			}
		}
	}
	for _, p := range []string{"", "k", "k0", "k01", "k1", "k02", "z"} {
		var want []string
		for _, k := range keys {
			if bytes.HasPrefix([]byte(k), []byte(p)) {
				want = append(want, k)
			}
		}
		recs, _, _ := t.PrefixScan([]byte(p), 0, nutsdb.ScanNoLimit)
		out.Queries++
		if msg := sameKeys(fmt.Sprintf("PrefixScan(%q)", p), recs, want); msg != "" {
			return msg
		}
		recs, _, _ = t.PrefixSearchScan([]byte(p), ".*", 0, nutsdb.ScanNoLimit)
		out.Queries++
		if msg := sameKeys(fmt.Sprintf("PrefixSearchScan(%q,.*)", p), recs, want); msg != "" {
			return msg
		}
	}
	return ""
}

func sameKeys(what string, recs nutsdb.Records, want []string) string {
	var got []string
	for _, r := range recs {
		got = append(got, string(nutsdb.VerifRecordKey(r)))
	}
	if fmt.Sprint(got) != fmt.Sprint(want) {
		return fmt.Sprintf("%s returns %v, want %v", what, got, want)
	}
	return ""
}

func wideWorker(arg json.RawMessage) interface{} {
	var j wideJob
	json.Unmarshal(arg, &j)
	out := &wideOut{}
	seen := map[string]bool{}
	addV := func(what string, order []int, msg string) {
		atom := "bptree:" + firstWords(msg, 2)
		if seen[atom] {
			return
		}
		seen[atom] = true
		out.Viol = append(out.Viol, eng.Violation{Prop: "C01", Kind: "bptree-" + j.Kind, What: atom, Atoms: []string{atom}, Tags: []string{"wide"},
			Detail: []string{fmt.Sprintf("%s: insertion order %v", what, order), msg}, Extra: map[string]interface{}{"profile": "wide"}})
	}
	insert := func(t *nutsdb.BPTree, present map[string]bool, i int, flag uint16) {
		k := wkey(i)
		t.Insert(k, nil, nutsdb.VerifHint(k, flag), nutsdb.CountFlagEnabled)
		present[string(k)] = true
		out.Inserts++
	}
	switch j.Kind {
	case "perm":
		// all insertion orders starting with key j.First; keys are spread so that neighbours matter
		rest := []int{}
		for i := 0; i < j.N; i++ {
			if i != j.First {
				rest = append(rest, i)
			}
		}
		var rec func(order []int, left []int)
		rec = func(order []int, left []int) {
			if len(left) == 0 {
				t := nutsdb.NewTree()
				present := map[string]bool{}
				for pi, i := range order {
					insert(t, present, i*3, nutsdb.DataSetFlag)
					if pi == len(order)/2 {
						// re-insert an existing key as a tombstone: the record is replaced in place
						insert(t, present, order[0]*3, nutsdb.DataDeleteFlag)
					}
					if msg := wideCheckTree(t, present, out, pi == len(order)-1); msg != "" {
						addV("permutation", order[:pi+1], msg)
						return
					}
				}
				out.Trees++
				return
			}
			for i := range left {
				nl := append(append([]int(nil), left[:i]...), left[i+1:]...)
				rec(append(order, left[i]), nl)
			}
		}
		rec([]int{j.First}, rest)
		out.Sample = fmt.Sprintf("all %d! insertion orders of %d keys starting with key %d", j.N-1, j.N, j.First)
	case "fill":
		base := make([]int, j.N)
		for i := range base {
			base[i] = (i + 1) * 10
			if j.Desc {
				base[i] = (j.N - i) * 10
			}
		}
		gaps := make([]int, j.N+1) // a key inside every gap (and before the first / after the last)
		for g := range gaps {
			gaps[g] = g*10 + 5
		}
		run := func(extra []int) {
			t := nutsdb.NewTree()
			present := map[string]bool{}
			order := append(append([]int(nil), base...), extra...)
			for pi, i := range order {
				insert(t, present, i, nutsdb.DataSetFlag)
				if pi >= len(base)-1 {
					if msg := wideCheckTree(t, present, out, pi == len(order)-1); msg != "" {
						addV("monotone fill + gap insertions", order, msg)
						return
					}
				}
			}
			out.Trees++
		}
		for _, g1 := range gaps {
			if j.Extra == 1 {
				run([]int{g1})
				continue
			}
			for _, g2 := range gaps {
				e2 := g2
				if g2 == g1 {
					e2 = g1 + 1 // two keys into the same gap
				}
				run([]int{g1, e2})
			}
		}
		dir := "ascending"
		if j.Desc {
			dir = "descending"
		}
		out.Sample = fmt.Sprintf("%s fill of %d keys, then every sequence of %d insertions into the %d gaps", dir, j.N, j.Extra, len(gaps))
	}
	return out
}

func firstWords(s string, n int) string {
	f := bytes.Fields([]byte(s))
	if len(f) > n {
		f = f[:n]
	}
	return string(bytes.Join(f, []byte("-")))
}

// runWide runs the B+ tree wide tier and folds it into the run.
func runWide(r *Run) {
	var args []interface{}
	n := 8
	if r.Tier == "thorough" {
		n = 9
	}
	for f := 0; f < n; f++ {
		args = append(args, wideJob{Kind: "perm", N: n, First: f})
	}
	lo, hi, step := 24, 40, 4
	if r.Tier == "thorough" {
		lo, hi, step = 16, 64, 1
	}
	for fn := lo; fn <= hi; fn += step {
		for _, desc := range []bool{false, true} {
			args = append(args, wideJob{Kind: "fill", N: fn, Desc: desc, Extra: 1})
			if fn%8 == 0 || r.Tier == "thorough" {
				args = append(args, wideJob{Kind: "fill", N: fn, Desc: desc, Extra: 2})
			}
		}
	}
	trees := 0
	r.Pool.ParallelCustom("wide", args, func(i int, raw json.RawMessage, ok bool) {
		var o wideOut
		if !ok || json.Unmarshal(raw, &o) != nil {
			r.Col.Add(eng.Violation{Prop: "C01", Kind: "hang", What: "bptree:worker-died", Atoms: []string{"bptree:worker-died"}, Detail: []string{fmt.Sprintf("B+ tree job %+v hung or killed its worker", args[i])}, Extra: map[string]interface{}{"profile": "wide"}})
			return
		}
		trees += o.Trees
		r.Stats.Transitions += o.Inserts
		r.Stats.Evals += o.Queries
		r.Stats.Extra["bptree_trees"] += o.Trees
		r.Stats.Extra["bptree_insertions"] += o.Inserts
		for k := 0; k < o.Trees && k < 2000; k++ {
			r.Stats.States[fmt.Sprintf("wide%d/%d", i, k)] = true
		}
		if len(r.Stats.Samples) < 10 {
			r.Stats.Samples = append(r.Stats.Samples, "bptree: "+o.Sample)
		}
		for _, v := range o.Viol {
			r.Col.Add(v)
		}
	})
	r.Extra["bptree_wide_tier"] = fmt.Sprintf("%d trees built and fully checked", trees)
}

func init() {
	customHandlers["wide"] = wideWorker
	_ = core.KV
}
