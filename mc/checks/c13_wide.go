package checks

import (
	"encoding/json"
	"fmt"

	"verif/mc/core"
	"verif/mc/eng"
)

// C13 wide transactions: ONE write transaction with 13..26 order-sensitive calls that alternate
// between two or three buckets (in ascending, descending and mixed bucket order): list pushes,
// repeated puts of one key, re-scored sorted-set members, add/remove of one set member.  The state
// the transaction leaves must be the one produced by running the calls in call order, also after
// reopen.  (Anything that reorders, groups or de-duplicates the pending writes of a transaction
// needs more than a handful of them to show.)

type c13WideJob struct {
	RW int `json:"rw"`
}

func c13WideHistories() (hists [][]core.Op, names []string, queries []core.Call) {
	bucketSets := [][]string{{"b1", "b2"}, {"b2", "b1"}, {"b2", "b1", "b3"}, {"m", "m"}}
	for _, bs := range bucketSets {
		for _, b := range bs {
			queries = append(queries, core.Call{F: "LRange", B: b, K: "k", I: 0, J: -1}, core.Call{F: "Get", B: b, K: "k"}, core.Call{F: "SMembers", B: b, K: "k"},
				core.Call{F: "ZMembers", B: b}, core.Call{F: "ZScore", B: b, K: "k"})
		}
	}
	seenQ := map[string]bool{}
	var qs []core.Call
	for _, q := range queries {
		if !seenQ[q.String()] {
			seenQ[q.String()] = true
			qs = append(qs, q)
		}
	}
	queries = qs
	kinds := []string{"rpush", "lpush", "put", "zadd", "sadd-srem", "mixed"}
	for _, bs := range bucketSets {
		for _, kind := range kinds {
			for _, n := range []int{13, 16, 20, 26} {
				var calls []core.Call
				for i := 0; i < n; i++ {
					b := bs[i%len(bs)]
					k := kind
					if kind == "mixed" {
						k = kinds[i%5]
					}
					switch k {
					case "rpush":
						calls = append(calls, core.Call{F: "RPush", B: b, K: "k", Vs: []string{fmt.Sprintf("v%02d", i)}})
					case "lpush":
						calls = append(calls, core.Call{F: "LPush", B: b, K: "k", Vs: []string{fmt.Sprintf("v%02d", i)}})
					case "put":
						calls = append(calls, core.Call{F: "Put", B: b, K: "k", V: fmt.Sprintf("v%02d", i)})
					case "zadd":
						calls = append(calls, core.Call{F: "ZAdd", B: b, K: "k", X: float64(i), V: fmt.Sprintf("v%02d", i)})
					default:
						if (i/len(bs))%2 == 0 {
							calls = append(calls, core.Call{F: "SAdd", B: b, K: "k", Vs: []string{"m"}})
						} else {
							calls = append(calls, core.Call{F: "SAdd", B: b, K: "k", Vs: []string{fmt.Sprintf("m%02d", i)}})
						}
					}
				}
				hists = append(hists, []core.Op{up(calls...), {Kind: "reopen"}})
				names = append(names, fmt.Sprintf("%s x%d over buckets %v", kind, n, bs))
			}
		}
	}
	return
}

func c13WideWorker(arg json.RawMessage) interface{} {
	var j c13WideJob
	json.Unmarshal(arg, &j)
	out := &longOut{}
	cfg := core.Cfg{Mode: core.KV, RW: j.RW, Start: j.RW, Seg: 1000}
	hists, names, queries := c13WideHistories()
	seen := map[string]bool{}
	for i, ops := range hists {
		out.Histories++
		in := core.OpenInst(cfg)
		for si, op := range ops {
			r := in.Apply(op)
			out.Steps++
			add := func(kind string, bad []core.Mismatch, detail string) {
				v := eng.Violation{Prop: "C13", Kind: kind, Cfg: cfg, Ops: ops[:si+1], Tags: []string{"wide-tx"}, Extra: map[string]interface{}{"profile": "long"}}
				for _, mm := range bad {
					v.Atoms = append(v.Atoms, mm.Atom())
					v.Detail = append(v.Detail, mm.String())
				}
				if len(v.Atoms) == 0 {
					v.Atoms = []string{kind}
				}
				v.Atoms = uniq(v.Atoms)
				v.What = v.Atoms[0]
				v.Detail = append([]string{fmt.Sprintf("wide transaction %s, step %d: %s", names[i], si+1, detail)}, v.Detail...)
				if k := kind + v.What; !seen[k] {
					seen[k] = true
					out.Viol = append(out.Viol, v)
				}
			}
			if r.Panic != "" {
				add("panic", nil, r.Panic)
				break
			}
			if op.Kind == "reopen" && r.Err {
				add("open-error", nil, r.Msg)
				break
			}
			if len(r.Bad) > 0 || len(r.Notes) > 0 {
				add("call-result", r.Bad, fmt.Sprint(r.Notes))
				break
			}
			obs, err := in.Observe(queries)
			if err != nil {
				add("obs-failed", nil, err.Error())
				break
			}
			out.Evals += len(obs)
			if bad := core.CheckObs(in.Model, queries, obs); len(bad) > 0 {
				add("obs-mismatch", bad, "state left by the transaction vs sequential composition of its calls")
				break
			}
		}
		in.Discard()
		if out.Sample == "" {
			out.Sample = fmt.Sprintf("%s: %s", cfg, names[i])
		}
	}
	return out
}

func runC13Wide(r *Run) {
	args := []interface{}{c13WideJob{RW: core.F}, c13WideJob{RW: core.M}}
	r.Pool.ParallelCustom("c13wide", args, func(i int, raw json.RawMessage, okk bool) {
		var o longOut
		if !okk || json.Unmarshal(raw, &o) != nil {
			r.Col.Add(eng.Violation{Prop: "C13", Kind: "hang", What: "wide:worker-died", Atoms: []string{"wide:worker-died"}, Detail: []string{fmt.Sprintf("wide-transaction job %+v hung or killed its worker", args[i])}})
			return
		}
		r.Stats.Transitions += o.Steps
		r.Stats.Evals += o.Evals
		r.Stats.Extra["wide_transactions"] += o.Histories
		for k := 0; k < o.Histories; k++ {
			r.Stats.States[fmt.Sprintf("c13wide%d/%d", i, k)] = true
		}
		if o.Sample != "" && len(r.Stats.Samples) < 10 {
			r.Stats.Samples = append(r.Stats.Samples, "wide transaction "+o.Sample)
		}
		for _, v := range o.Viol {
			r.Col.Add(v)
		}
	})
}

func init() { customHandlers["c13wide"] = c13WideWorker }
