package checks

import (
	"encoding/json"
	"fmt"

	"verif/mc/eng"
)

// customHandlers are engine-specific worker jobs, by profile name.
var customHandlers = map[string]func(arg json.RawMessage) interface{}{}

// Custom dispatches a custom worker job.
func Custom(profile string, arg json.RawMessage) interface{} {
	h := customHandlers[profile]
	if h == nil {
		return map[string]string{"error": "unknown custom profile " + profile}
	}
	return h(arg)
}

// replayHandlers re-execute engine-specific counterexamples, by profile name.
var replayHandlers = map[string]func(rp eng.Replay) int{}

// Replay re-executes a stored counterexample with the plain driver and prints expected vs observed.
func Replay(rp eng.Replay) int {
	v := rp.Violation
	fmt.Printf("replay: property=%s kind=%s what=%s cfg=%s\n", v.Prop, v.Kind, v.What, v.Cfg)
	for i, o := range v.Ops {
		fmt.Printf("  op %d: %s\n", i+1, o)
	}
	if h := replayHandlers[rp.Profile]; h != nil {
		return h(rp)
	}
	p := Profiles[rp.Profile]
	if p == nil {
		fmt.Printf("unknown profile %q\n", rp.Profile)
		return 2
	}
	lf := eng.RunOps(p, v.Cfg, v.Ops)
	if len(lf.Viol) == 0 {
		fmt.Println("replay: no violation reproduced")
		return 0
	}
	for _, w := range lf.Viol {
		fmt.Printf("reproduced: property=%s kind=%s what=%s\n", w.Prop, w.Kind, w.What)
		for _, d := range w.Detail {
			fmt.Printf("  %s\n", d)
		}
	}
	return 1
}
