package checks

import (
	"os"
	"time"
)

func osRemoveAll(d string) error { return os.RemoveAll(d) }

func osExit(c int) { os.Exit(c) }

func nowSec() int64 { return time.Now().Unix() }
