package checks

import (
	"fmt"
	"math"
	"os"
	"strings"

	"github.com/xujiajun/nutsdb"

	"verif/mc/core"
	"verif/mc/eng"
)

// C20: no argument or state makes an API call panic.

type c20State struct {
	name  string
	cfg   core.Cfg
	setup []core.Op
}

func c20States() []c20State {
	kv := core.Cfg{Mode: core.KV, Seg: 200}
	pop := []core.Op{
		up(core.Call{F: "Put", B: "b", K: "k", V: "v"}, core.Call{F: "Put", B: "b", K: "k2", V: "v2"}),
		up(core.Call{F: "RPush", B: "b", K: "k", Vs: []string{"a", "b", "c"}}),
		up(core.Call{F: "SAdd", B: "b", K: "k", Vs: []string{"m", "n"}}, core.Call{F: "SAdd", B: "b", K: "k2", Vs: []string{"o"}}),
		up(core.Call{F: "ZAdd", B: "b", K: "k", X: 1, V: "v"}, core.Call{F: "ZAdd", B: "b", K: "k2", X: 2, V: "w"}),
	}
	kvOnly := []core.Op{up(core.Call{F: "Put", B: "b", K: "k", V: "v"}), up(core.Call{F: "Put", B: "b", K: "k2", V: "v2"}), up(core.Call{F: "Put", B: "b", K: "k3", V: "v3"})}
	return []c20State{
		{"empty", kv, nil},
		{"populated", kv, pop},
		{"populated+reopened", kv, append(append([]core.Op(nil), pop...), core.Op{Kind: "reopen"})},
		{"kv-only", kv, pop[:1]},
		{"list-only", kv, pop[1:2]},
		{"set-only", kv, pop[2:3]},
		{"zset-only", kv, pop[3:4]},
		{"emptied", kv, append(append([]core.Op(nil), pop...), upIgn(core.Call{F: "LTrim", B: "b", K: "k", I: 0, J: 0}, core.Call{F: "LPop", B: "b", K: "k"}, core.Call{F: "SPop", B: "b", K: "k2"}, core.Call{F: "ZPopMin", B: "b"}, core.Call{F: "ZPopMin", B: "b"}, core.Call{F: "Delete", B: "b", K: "k"}))},
		{"key-only-rotated", core.Cfg{Mode: core.K, Seg: 100}, kvOnly},
		{"sparse-sealed", core.Cfg{Mode: core.S, Seg: 100}, kvOnly},
		{"sparse-mmap", core.Cfg{Mode: core.S, RW: core.M, Start: core.M, Seg: 100}, kvOnly},
		{"merged", core.Cfg{Mode: core.KV, Seg: 100}, append(append([]core.Op(nil), kvOnly...), core.Op{Kind: "merge"})},
		// the same rotated states after a restart (what Open rebuilds differs from what the process
		// that did the rotation holds)
		{"key-only-rotated+reopened", core.Cfg{Mode: core.K, Seg: 100}, append(append([]core.Op(nil), kvOnly...), core.Op{Kind: "reopen"})},
		{"sparse-sealed+reopened", core.Cfg{Mode: core.S, Seg: 100}, append(append([]core.Op(nil), kvOnly...), core.Op{Kind: "reopen"})},
		{"sparse-mmap+reopened", core.Cfg{Mode: core.S, RW: core.M, Start: core.M, Seg: 100}, append(append([]core.Op(nil), kvOnly...), core.Op{Kind: "reopen"})},
		// one element in every structure: two removals inside one transaction over-drain it
		{"one-each", kv, []core.Op{up(core.Call{F: "Put", B: "b", K: "k", V: "v"}), up(core.Call{F: "RPush", B: "b", K: "k", Vs: []string{"a"}}),
			up(core.Call{F: "SAdd", B: "b", K: "k", Vs: []string{"m"}}), up(core.Call{F: "ZAdd", B: "b", K: "k", X: 1, V: "v"})}},
		{"merged+reopened", core.Cfg{Mode: core.KV, Seg: 100}, append(append([]core.Op(nil), kvOnly...), core.Op{Kind: "merge"}, core.Op{Kind: "reopen"})},
	}
}

func c20Calls(pairs bool) []core.Call {
	var out []core.Call
	buckets := []string{"b", "", "|", "zz"}
	type kk struct {
		k   string
		nil bool
	}
	keys := []kk{{"k", false}, {"", false}, {"", true}, {"|", false}, {"a|b", false}, {"zz", false}}
	ints := []int{math.MinInt64, -2, -1, 0, 1, 2, 3, 4, math.MaxInt64}
	if pairs {
		buckets = []string{"b", ""}
		keys = []kk{{"k", false}, {"", true}, {"a|b", false}}
		ints = []int{math.MinInt64, -1, 0, 1, math.MaxInt64}
	}
	add := func(c core.Call) { out = append(out, c) }
	for _, b := range buckets {
		for _, k := range keys {
			base := core.Call{B: b, K: k.k, NilK: k.nil}
			w := func(f string, mod func(c *core.Call)) {
				c := base
				c.F = f
				if mod != nil {
					mod(&c)
				}
				add(c)
			}
			w("Put", func(c *core.Call) { c.V = "v" })
			w("Put", func(c *core.Call) { c.V = ""; c.TTL = math.MaxUint32 })
			w("PutTS", func(c *core.Call) { c.V = "v"; c.TTL = 1; c.TS = -10 })
			w("Delete", nil)
			w("RPush", func(c *core.Call) { c.Vs = []string{"x", "a|b"} })
			w("RPush", func(c *core.Call) { c.Vs = nil })
			w("LPush", func(c *core.Call) { c.Vs = []string{""} })
			w("LPop", nil)
			w("RPop", nil)
			w("SAdd", func(c *core.Call) { c.Vs = []string{"m", ""} })
			w("SAdd", func(c *core.Call) { c.Vs = nil })
			w("SRem", func(c *core.Call) { c.Vs = []string{"m"} })
			w("SRem", func(c *core.Call) { c.Vs = []string{""} })
			w("SRem", func(c *core.Call) { c.Vs = nil })
			w("SPop", nil)
			w("SMoveByOneBucket", func(c *core.Call) { c.K2 = "k2"; c.V = "m" })
			w("SMoveByTwoBuckets", func(c *core.Call) { c.B2 = "b"; c.K2 = "k2"; c.V = "" })
			w("ZRem", nil)
			for _, sc := range []string{"nan", "+inf", "-inf", ""} {
				w("ZAdd", func(c *core.Call) { c.XS = sc; c.X = 1e308; c.V = "v" })
			}
			w("ZAdd", func(c *core.Call) { c.X = math.Copysign(0, -1); c.V = "" })
			for _, i := range ints {
				w("LRem", func(c *core.Call) { c.I = i; c.V = "a" })
				w("LSet", func(c *core.Call) { c.I = i; c.V = "z" })
				for _, j2 := range ints {
					if pairs && i != j2 && i != 0 {
						continue
					}
					w("LTrim", func(c *core.Call) { c.I, c.J = i, j2 })
				}
			}
			if pairs {
				continue
			}
			// reads
			w("Get", nil)
			w("LPeek", nil)
			w("RPeek", nil)
			w("LSize", nil)
			w("SMembers", nil)
			w("SCard", nil)
			w("SHasKey", nil)
			w("SIsMember", func(c *core.Call) { c.V = "" })
			w("SAreMembers", func(c *core.Call) { c.Vs = nil })
			w("SAreMembers", func(c *core.Call) { c.Vs = []string{"m", ""} })
			for _, f := range []string{"SDiffByOneBucket", "SUnionByOneBucket"} {
				w(f, func(c *core.Call) { c.K2 = "k2" })
				w(f, func(c *core.Call) { c.K2 = "zz" })
			}
			for _, f := range []string{"SDiffByTwoBuckets", "SUnionByTwoBuckets"} {
				w(f, func(c *core.Call) { c.B2 = "b"; c.K2 = "k2" })
				w(f, func(c *core.Call) { c.B2 = "zz"; c.K2 = "k2" })
			}
			w("ZScore", nil)
			w("ZGetByKey", nil)
			w("ZRank", nil)
			w("ZRevRank", nil)
			w("RangeScan", func(c *core.Call) { c.K2 = "z" })
			w("RangeScan", func(c *core.Call) { c.K2 = "" })
			for _, i := range ints {
				for _, j2 := range ints {
					w("LRange", func(c *core.Call) { c.I, c.J = i, j2 })
					w("PrefixScan", func(c *core.Call) { c.I, c.J = i, j2 })
				}
				for _, re := range []string{"", "(", "\\", ".*"} {
					w("PrefixSearchScan", func(c *core.Call) { c.I, c.J, c.Re = 0, i, re })
				}
			}
		}
		// calls without a key
		for _, f := range []string{"GetAll", "ZMembers", "ZCard", "ZPeekMax", "ZPeekMin"} {
			if !pairs {
				add(core.Call{F: f, B: b})
			}
		}
		add(core.Call{F: "ZPopMax", B: b})
		add(core.Call{F: "ZPopMin", B: b})
		for _, i := range ints {
			for _, j2 := range ints {
				if pairs && i != j2 && i != 1 {
					continue
				}
				add(core.Call{F: "ZRemRangeByRank", B: b, I: i, J: j2})
				if !pairs {
					add(core.Call{F: "ZRangeByRank", B: b, I: i, J: j2})
				}
			}
		}
		if !pairs {
			for _, x := range []string{"nan", "+inf", "-inf", ""} {
				for _, y := range []string{"nan", "+inf", "-inf", ""} {
					add(core.Call{F: "ZRangeByScore", B: b, XS: x, YS: y, X: -1, Y: 2})
					add(core.Call{F: "ZCount", B: b, XS: x, YS: y, X: 2, Y: -1, Z: &core.ZOpt{Limit: -1, ExcludeStart: true, ExcludeEnd: true}})
				}
			}
		}
	}
	return out
}

func c20Profile(tier string, pairs bool) *eng.Profile {
	name := "singles"
	if pairs {
		name = "pairs"
	}
	states := c20States()
	var ops []core.Op
	if !pairs {
		for _, c := range c20Calls(false) {
			ops = append(ops, core.Op{Kind: "update", Calls: []core.Call{c}, IgnoreErr: true}, core.Op{Kind: "view", Calls: []core.Call{c}, IgnoreErr: true}, core.Op{Kind: "begin-commit", Calls: []core.Call{c}, IgnoreErr: true})
		}
	} else {
		calls := c20Calls(true)
		var writes []core.Call
		for _, c := range calls {
			if core.IsMutator(c.F) {
				writes = append(writes, c)
			}
		}
		// every ordered pair would be |writes|^2; pair every call with one representative of every API
		rep := map[string]core.Call{}
		for _, c := range writes {
			if _, ok := rep[c.F]; !ok && c.B == "b" && c.K == "k" {
				rep[c.F] = c
			}
		}
		for _, c1 := range writes {
			for _, f := range sortedRepKeys(rep) {
				ops = append(ops, core.Op{Kind: "update", Calls: []core.Call{c1, rep[f]}, IgnoreErr: true}, core.Op{Kind: "update", Calls: []core.Call{rep[f], c1}, IgnoreErr: true})
			}
		}
		if tier == "thorough" {
			// triples for the list and sorted-set APIs
			var lz []core.Call
			for _, c := range writes {
				if c.B == "b" && c.K == "k" && (strings.HasPrefix(c.F, "L") || strings.HasPrefix(c.F, "R") || strings.HasPrefix(c.F, "Z")) {
					lz = append(lz, c)
				}
			}
			for _, f1 := range sortedRepKeys(rep) {
				for _, f2 := range sortedRepKeys(rep) {
					for _, c3 := range lz {
						ops = append(ops, core.Op{Kind: "update", Calls: []core.Call{rep[f1], rep[f2], c3}, IgnoreErr: true})
					}
				}
			}
		}
	}
	p := &eng.Profile{ID: "C20", Name: name, Cfgs: []core.Cfg{{Mode: core.KV, Seg: 200}}, Ops: func(core.Cfg) []core.Op { return ops },
		Obs: func(core.Cfg) []core.Call { return nil }, Depth: 1, NoKappa: true}
	p.Run = func(p *eng.Profile, _ core.Cfg, hist []core.Op, leaf *eng.Leaf) {
		op := hist[len(hist)-1]
		leaf.NoExpand = true
		leaf.Nontrivial = true
		sts := states
		if pairs {
			sts = nil
			for _, st := range states {
				switch st.name {
				case "empty", "populated", "emptied", "one-each":
					sts = append(sts, st)
				}
			}
		}
		for _, st := range sts {
			in := core.OpenInst(st.cfg)
			broken := false
			for _, so := range st.setup {
				r := in.Apply(so)
				if in.Poisoned != "" || in.DB == nil {
					broken = true
					_ = r
					break
				}
			}
			if broken {
				in.Discard()
				continue
			}
			r := in.Apply(op)
			leaf.Evals++
			pan := r.Panic
			if pan == "" {
				for _, cr := range append(append([]core.Res(nil), r.Calls...), r.After...) {
					if cr.Panic != "" {
						pan = cr.Panic
					}
				}
			}
			if pan != "" {
				what := "panic:" + panicSite(pan, op)
				leaf.Viol = append(leaf.Viol, eng.Violation{Prop: "C20", Kind: "panic", Cfg: st.cfg, Ops: append(append([]core.Op(nil), st.setup...), op),
					What: what, Atoms: []string{what}, Tags: []string{op.Kind}, Detail: []string{"state " + st.name + ": " + op.String(), pan}})
			}
			leaf.ObsHash = core.Hash(leaf.ObsHash + fmt.Sprint(r.Calls, r.Err)) // result vector over all states
			in.Discard()
		}
		leaf.ModelHash = leaf.ObsHash
	}
	return p
}

// panicSite abstracts a panic to the API that was running.
func panicSite(pan string, op core.Op) string {
	if i := strings.Index(pan, ":"); i > 0 && !strings.Contains(pan[:i], " ") {
		return pan[:i] // "<API>: message" from ExecCall
	}
	return "Commit[" + eng.CallNames(op) + "]"
}

func sortedRepKeys(m map[string]core.Call) []string {
	var ks []string
	for k := range m {
		ks = append(ks, k)
	}
	sortStrings(ks)
	return ks
}

// c20DBLevel drives the DB-level API on degenerate options and on a closed database.
func c20DBLevel(r *Run) {
	type tc struct {
		name string
		fn   func() string
	}
	try := func(name string, f func()) (pan string) {
		defer func() {
			if p := recover(); p != nil {
				pan = fmt.Sprint(p)
			}
		}()
		f()
		return ""
	}
	n := 0
	report := func(name, pan string) {
		n++
		if pan != "" {
			what := "panic:" + name
			r.Col.Add(eng.Violation{Prop: "C20", Kind: "panic", What: what, Atoms: []string{what}, Detail: []string{name, pan}, Extra: map[string]interface{}{"profile": "dblevel"}})
		}
	}
	dir := func() string { return core.NewDir() }
	for _, o := range []struct {
		name string
		opt  nutsdb.Options
	}{
		{"Open(zero Options)", nutsdb.Options{}},
		{"Open(empty Dir)", nutsdb.Options{SegmentSize: 100, NodeNum: 1}},
		{"Open(SegmentSize 0)", nutsdb.Options{Dir: dir(), NodeNum: 1}},
		{"Open(SegmentSize -1)", nutsdb.Options{Dir: dir(), SegmentSize: -1, NodeNum: 1}},
		{"Open(NodeNum -1)", nutsdb.Options{Dir: dir(), SegmentSize: 100, NodeNum: -1}},
		{"Open(NodeNum 1024)", nutsdb.Options{Dir: dir(), SegmentSize: 100, NodeNum: 1024}},
		{"Open(EntryIdxMode 7)", nutsdb.Options{Dir: dir(), SegmentSize: 100, NodeNum: 1, EntryIdxMode: 7}},
		{"Open(RWMode 7)", nutsdb.Options{Dir: dir(), SegmentSize: 100, NodeNum: 1, RWMode: 7}},
	} {
		o := o
		report(o.name, try(o.name, func() {
			db, err := nutsdb.Open(o.opt)
			if err == nil && db != nil {
				// a database that opened must also run a transaction and close without panicking
				db.Update(func(tx *nutsdb.Tx) error { return tx.Put("b", []byte("k"), []byte("v"), 0) })
				db.View(func(tx *nutsdb.Tx) error { tx.Get("b", []byte("k")); return nil })
				db.Close()
			}
		}))
		if o.opt.Dir != "" {
			os.RemoveAll(o.opt.Dir)
		}
	}
	for _, mode := range []int{core.KV, core.K, core.S} {
		cfg := core.Cfg{Mode: mode, Seg: 100}
		mk := func() *core.Inst {
			in := core.OpenInst(cfg)
			in.Apply(up(core.Call{F: "Put", B: "b", K: "k", V: "v"}))
			in.Apply(up(core.Call{F: "Put", B: "b", K: "k2", V: "v"}))
			in.Apply(up(core.Call{F: "Put", B: "b", K: "k3", V: "v"}))
			return in
		}
		for _, t := range []struct {
			name string
			fn   func(db *nutsdb.DB)
		}{
			{"Update(nil)", func(db *nutsdb.DB) { db.Update(nil) }},
			{"View(nil)", func(db *nutsdb.DB) { db.View(nil) }},
			{"Close;Close", func(db *nutsdb.DB) { db.Close(); db.Close() }},
			{"Close;Update", func(db *nutsdb.DB) { db.Close(); db.Update(func(tx *nutsdb.Tx) error { return nil }) }},
			{"Close;View", func(db *nutsdb.DB) { db.Close(); db.View(func(tx *nutsdb.Tx) error { return nil }) }},
			{"Close;Begin", func(db *nutsdb.DB) { db.Close(); db.Begin(true); db.Begin(false) }},
			{"Close;Merge", func(db *nutsdb.DB) { db.Close(); db.Merge() }},
			{"Close;Backup", func(db *nutsdb.DB) { db.Close(); d := core.NewDir(); db.Backup(d); os.RemoveAll(d) }},
			{"Merge;Merge", func(db *nutsdb.DB) { db.Merge(); db.Merge() }},
			{"Backup('')", func(db *nutsdb.DB) { db.Backup("") }},
			{"Backup(own dir)", nil},
			{"Begin;Commit;Commit;Rollback", func(db *nutsdb.DB) {
				tx, _ := db.Begin(true)
				tx.Commit()
				tx.Commit()
				tx.Rollback()
			}},
			{"Begin(false);Rollback;Rollback", func(db *nutsdb.DB) {
				tx, _ := db.Begin(false)
				tx.Rollback()
				tx.Rollback()
				tx.Commit()
			}},
		} {
			if t.fn == nil {
				continue
			}
			t := t
			in := mk()
			name := fmt.Sprintf("%s[%s]", t.name, modeName(mode))
			pan := try(name, func() { t.fn(in.DB) })
			report(name, pan)
			if pan != "" {
				in.Poisoned = pan
			}
			if strings.HasPrefix(t.name, "Close") {
				in.DB = nil
			}
			in.Discard()
		}
	}
	// structures the index mode does not support: writing them works, the replay at Open may
	// refuse the directory but must not panic
	for _, mode := range []int{core.K, core.S} {
		for _, c := range []core.Call{
			{F: "ZAdd", B: "z", K: "a", X: 1, V: "v"}, {F: "SAdd", B: "s", K: "k", Vs: []string{"m"}}, {F: "RPush", B: "l", K: "k", Vs: []string{"a"}},
		} {
			in := core.OpenInst(core.Cfg{Mode: mode, Seg: 100})
			name := fmt.Sprintf("%s;Close;Open[%s]", c.F, modeName(mode))
			r1 := in.Apply(up(c))
			r2 := in.Apply(upIgn(core.Call{F: "ZRem", B: "z", K: "a"}, core.Call{F: "ZPopMax", B: "z"}))
			if in.Poisoned != "" {
				// a panic inside Commit leaves the database lock held: report it, do not touch the instance again
				report(name+":commit", r1.Panic+r2.Panic)
				in.Discard()
				continue
			}
			pan := try(name, func() {
				if in.DB != nil {
					in.DB.Close()
				}
				in.DB = nil
				if db, err := nutsdb.Open(in.Cfg.Options(in.Dir)); err == nil {
					db.Close()
				}
			})
			report(name, pan)
			in.Discard()
		}
	}
	r.Stats.Evals += n
	r.Stats.Extra["db_level_cases"] = n
}

func init() {
	profileBuilders = append(profileBuilders, func(tier string) {
		Register(c20Profile(tier, false))
		Register(c20Profile(tier, true))
	})
	Registry["C20"] = func(r *Run) {
		r.Rule = "every Tx API x boundary grid (keys nil,'','|','a|b',present,absent; buckets '','|',present,absent; ints {MinInt64,-2..4,MaxInt64} in every position; scores NaN,+-Inf,-0,1e308; regexps '', '(', '\\\\'; empty variadic lists) as the only call of a write transaction (then Commit), of a read-only transaction, and on a finished transaction, in each of 17 prepared states (empty, populated, reopened, one structure only, emptied structures, key-only rotated, sparse with sealed segments FileIO/MMap, merged, and the last four after a restart); every ordered pair (write call, representative of every write API) inside one transaction followed by Commit (thorough: triples for list/zset); DB-level API on degenerate Options, nil functions, closed databases, finished transactions. Oracle: no recovered panic, no hang. distinct = distinct result vectors"
		r.Assume = []string{"argument values outside the grid are not covered"}
		r.Explore(c20Profile(r.Tier, false), "C20")
		r.Explore(c20Profile(r.Tier, true), "C20")
		c20DBLevel(r)
	}
}
