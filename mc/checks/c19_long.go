package checks

import (
	"encoding/json"
	"fmt"

	"verif/mc/core"
	"verif/mc/eng"
)

// C19 long families: the long deterministic KV histories of C02 (n single-put transactions in
// three key orders, a reopen, overwrites and deletes, a reopen) run under every option
// combination and compared with the baseline configuration: per-call results, the final
// observation and the observation after close+reopen.  A reopen with a non-empty active segment
// followed by commits that reach the end of that segment is the case short histories cannot build.

type c19LongJob struct {
	Merge bool  `json:"merge"` // the Merge families of C15 instead of the KV families of C02
	Seg   int64 `json:"seg"`
	Shard int   `json:"shard"`
	Of    int   `json:"of"`
	NMax  int   `json:"nmax"`
}

func c19LongWorker(arg json.RawMessage) interface{} {
	var j c19LongJob
	json.Unmarshal(arg, &j)
	out := &longOut{}
	base := core.Cfg{Mode: core.KV, RW: core.F, Start: core.F, Seg: j.Seg}
	var variants []core.Cfg
	for _, v := range c19Variants(true) {
		v.Seg = j.Seg
		variants = append(variants, v)
	}
	seen := map[string]bool{}
	idx := 0
	if j.Merge {
		// Merge is refused in sparse mode: RAM index modes only
		var ram []core.Cfg
		for _, v := range variants {
			if v.Mode != core.S {
				ram = append(ram, v)
			}
		}
		queries := mixedObsFor(core.Cfg{Mode: core.K})
		for n := 2; n <= j.NMax; n++ {
			for k := 1; k <= 3; k++ {
				for _, d := range []int{0, 3} {
					for _, m := range []int{0, 1} {
						idx++
						if idx%j.Of != j.Shard {
							continue
						}
						hist := longHistory(n, k, d, 0, m)
						var leaf eng.Leaf
						c19Compare(base, ram, true, hist, queries, &leaf)
						out.Histories++
						out.Steps += len(hist) * len(ram)
						out.Evals += leaf.Evals
						for _, v := range leaf.Viol {
							v.Tags = append(v.Tags, "long", "merge")
							v.Detail = append([]string{fmt.Sprintf("Merge family n=%d k=%d delete-every=%d m=%d seg=%d", n, k, d, m, j.Seg)}, v.Detail...)
							if v.Extra == nil {
								v.Extra = map[string]interface{}{}
							}
							v.Extra["profile"] = "C19/kv"
							if kk := v.Kind + v.What + v.Cfg.String(); !seen[kk] {
								seen[kk] = true
								out.Viol = append(out.Viol, v)
							}
						}
						if out.Sample == "" {
							out.Sample = fmt.Sprintf("Merge family seg=%d n=%d k=%d delete-every=%d m=%d: %d ops x %d option combinations", j.Seg, n, k, d, m, len(hist), len(ram))
						}
					}
				}
			}
		}
		return out
	}
	for n := 4; n <= j.NMax; n++ {
		var queries []core.Call
		for i := 0; i < n; i++ {
			queries = append(queries, core.Call{F: "Get", B: "b", K: fmt.Sprintf("k%02d", i)})
		}
		queries = append(queries, core.Call{F: "GetAll", B: "b"}, core.Call{F: "RangeScan", B: "b", K: "", K2: "z"}, core.Call{F: "PrefixScan", B: "b", K: "k", I: 0, J: 100})
		for _, order := range []string{"asc", "desc", "zig"} {
			for _, every := range []int{0, 2, 3} {
				idx++
				if idx%j.Of != j.Shard {
					continue
				}
				hist := kvLongHistory(n, order, every)
				var leaf eng.Leaf
				c19Compare(base, variants, true, hist, queries, &leaf)
				out.Histories++
				out.Steps += len(hist) * len(variants)
				out.Evals += leaf.Evals
				for _, v := range leaf.Viol {
					v.Tags = append(v.Tags, "long")
					v.Detail = append([]string{fmt.Sprintf("family n=%d order=%s overwrite-every=%d seg=%d", n, order, every, j.Seg)}, v.Detail...)
					if v.Extra == nil {
						v.Extra = map[string]interface{}{}
					}
					v.Extra["profile"] = "C19/kv"
					if k := v.Kind + v.What + v.Cfg.String(); !seen[k] {
						seen[k] = true
						out.Viol = append(out.Viol, v)
					}
				}
				if out.Sample == "" {
					out.Sample = fmt.Sprintf("seg=%d n=%d order=%s overwrite-every=%d: %d ops x %d option combinations", j.Seg, n, order, every, len(hist), len(variants))
				}
			}
		}
	}
	return out
}

func runC19Long(r *Run) {
	var args []interface{}
	nmax, shards := 9, 2
	if r.Tier == "thorough" {
		nmax, shards = 14, 4
	}
	for _, seg := range []int64{100, 150, 200, 260} {
		for s := 0; s < shards; s++ {
			args = append(args, c19LongJob{Seg: seg, Shard: s, Of: shards, NMax: nmax})
		}
	}
	// Merge families: segment size 94 = two 47-byte records (exactly full segments), and 100
	mmax := 6
	if r.Tier == "thorough" {
		mmax = 10
	}
	for _, seg := range []int64{94, 100} {
		for s := 0; s < shards; s++ {
			args = append(args, c19LongJob{Merge: true, Seg: seg, Shard: s, Of: shards, NMax: mmax})
		}
	}
	r.Pool.ParallelCustom("c19long", args, func(i int, raw json.RawMessage, okk bool) {
		var o longOut
		if !okk || json.Unmarshal(raw, &o) != nil {
			r.Col.Add(eng.Violation{Prop: "C19", Kind: "hang", What: "long:worker-died", Atoms: []string{"long:worker-died"}, Detail: []string{fmt.Sprintf("long-history job %+v hung or killed its worker", args[i])}})
			return
		}
		r.Stats.Transitions += o.Steps
		r.Stats.Evals += o.Evals
		r.Stats.Extra["long_histories"] += o.Histories
		for k := 0; k < o.Histories; k++ {
			r.Stats.States[fmt.Sprintf("c19long%d/%d", i, k)] = true
		}
		if o.Sample != "" && len(r.Stats.Samples) < 10 {
			r.Stats.Samples = append(r.Stats.Samples, "long C19 family "+o.Sample)
		}
		for _, v := range o.Viol {
			r.Col.Add(v)
		}
	})
}

func init() { customHandlers["c19long"] = c19LongWorker }
