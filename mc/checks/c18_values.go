package checks

import (
	"encoding/json"
	"fmt"

	"verif/mc/core"
	"verif/mc/eng"
)

// C18 value-shape family: Backup of a database whose segments hold large values of a given
// content (zero bytes, 0xff bytes, 'x') and size around the block sizes a copy loop may use,
// in several layouts (value first in the segment, between small records, in a sealed and in the
// active segment).  Exhaustive over the grid content x size x layout x index mode x RWMode; the
// oracle is the one of the history profile: the copy opens with the same options and shows the
// model at backup time.

type c18ValJob struct {
	Mode int    `json:"mode"`
	RW   int    `json:"rw"`
	Tier string `json:"tier"`
}

var c18ValSizes = []int{1, 511, 512, 513, 4095, 4096, 4097, 8191, 8192, 8193, 12288, 16384}

func c18ValHistories(tier string) (hists [][]core.Op, names []string) {
	small := func(k, v string) core.Op { return up(core.Call{F: "Put", B: bKV, K: k, V: v}) }
	for _, fill := range []string{"zero", "ff", ""} {
		for _, n := range c18ValSizes {
			blob := func(k string) core.Op { return up(core.Call{F: "Put", B: bKV, K: k, Big: n, Fill: fill}) }
			layouts := map[string][]core.Op{
				"first":   {blob("zb"), small("a", "x"), small("ab", "y")},
				"between": {small("a", "x"), blob("zb"), small("ab", "y"), small("zz", "z")},
				// two blobs: for the larger sizes the second one does not fit and the first segment is sealed
				"sealed+active": {small("a", "x"), blob("zb"), small("ab", "y"), blob("zc"), small("zz", "z"), small("a", "x2")},
				"deleted":       {small("a", "x"), blob("zb"), small("ab", "y"), up(core.Call{F: "Delete", B: bKV, K: "zb"}), small("zz", "z")},
			}
			for _, ln := range []string{"first", "between", "sealed+active", "deleted"} {
				h := append(append([]core.Op(nil), layouts[ln]...), core.Op{Kind: "backup"})
				hists = append(hists, h)
				names = append(names, fmt.Sprintf("fill=%q size=%d layout=%s", fill, n, ln))
			}
		}
	}
	return
}

func c18ValWorker(arg json.RawMessage) interface{} {
	var j c18ValJob
	json.Unmarshal(arg, &j)
	out := &longOut{}
	cfg := core.Cfg{Mode: j.Mode, RW: j.RW, Start: j.RW, Seg: 24576}
	p := c18Profile(j.Tier)
	hists, names := c18ValHistories(j.Tier)
	seen := map[string]bool{}
	for i, h := range hists {
		lf := eng.RunOps(p, cfg, h)
		out.Histories++
		out.Steps += len(h)
		out.Evals += lf.Evals
		if lf.Features["backup"] > 0 {
			out.Merges++ // backups actually taken
		}
		for _, v := range lf.Viol {
			v.Tags = append(v.Tags, "values")
			v.Detail = append([]string{"value-shape family " + names[i]}, v.Detail...)
			if k := v.Kind + v.What; !seen[k] {
				seen[k] = true
				out.Viol = append(out.Viol, v)
			}
		}
		if out.Sample == "" {
			out.Sample = fmt.Sprintf("%s: %s: %d ops", cfg, names[i], len(h))
		}
	}
	return out
}

func runC18Values(r *Run) {
	var args []interface{}
	for _, m := range []int{core.KV, core.K, core.S} {
		for _, rw := range []int{core.F, core.M} {
			args = append(args, c18ValJob{Mode: m, RW: rw, Tier: r.Tier})
		}
	}
	r.Pool.ParallelCustom("c18values", args, func(i int, raw json.RawMessage, okk bool) {
		var o longOut
		if !okk || json.Unmarshal(raw, &o) != nil {
			r.Col.Add(eng.Violation{Prop: "C18", Kind: "hang", What: "values:worker-died", Atoms: []string{"values:worker-died"}, Detail: []string{fmt.Sprintf("value-shape job %+v hung or killed its worker", args[i])}})
			return
		}
		r.Stats.Transitions += o.Steps
		r.Stats.Evals += o.Evals
		r.Stats.Extra["value_shape_histories"] += o.Histories
		r.Stats.Extra["value_shape_backups"] += o.Merges
		for k := 0; k < o.Histories; k++ {
			r.Stats.States[fmt.Sprintf("c18values%d/%d", i, k)] = true
		}
		if o.Sample != "" && len(r.Stats.Samples) < 10 {
			r.Stats.Samples = append(r.Stats.Samples, "value-shape family "+o.Sample)
		}
		for _, v := range o.Viol {
			r.Col.Add(v)
		}
	})
}

func init() { customHandlers["c18values"] = c18ValWorker }
