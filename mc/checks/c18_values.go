package checks

import (
	"encoding/json"
	"fmt"

	"verif/mc/core"
	"verif/mc/eng"
)

// C18 value-shape family: Backup of a database whose segments hold large values of a given
// content (zero bytes, 0xff bytes, 'x') and size around the block sizes a copy loop may use,
// in several layouts (value first in the segment, between small records, in a sealed and in the
// active segment).  Exhaustive over the grid content x size x layout x index mode x RWMode; the
// oracle is the one of the history profile: the copy opens with the same options and shows the
// model at backup time.

type c18ValJob struct {
	Mode int    `json:"mode"`
	RW   int    `json:"rw"`
	Tier string `json:"tier"`
}

var c18ValSizes = []int{1, 511, 512, 513, 4095, 4096, 4097, 8191, 8192, 8193, 12288, 16384}

func c18ValHistories(tier string) (hists [][]core.Op, names []string) {
	small := func(k, v string) core.Op { return up(core.Call{F: "Put", B: bKV, K: k, V: v}) }
	for _, fill := range []string{"zero", "ff", ""} {
		for _, n := range c18ValSizes {
			blob := func(k string) core.Op { return up(core.Call{F: "Put", B: bKV, K: k, Big: n, Fill: fill}) }
			layouts := map[string][]core.Op{
				"first":   {blob("zb"), small("a", "x"), small("ab", "y")},
				"between": {small("a", "x"), blob("zb"), small("ab", "y"), small("zz", "z")},
				// two blobs: for the larger sizes the second one does not fit and the first segment is sealed
				"sealed+active": {small("a", "x"), blob("zb"), small("ab", "y"), blob("zc"), small("zz", "z"), small("a", "x2")},
				"deleted":       {small("a", "x"), blob("zb"), small("ab", "y"), up(core.Call{F: "Delete", B: bKV, K: "zb"}), small("zz", "z")},
			}
			for _, ln := range []string{"first", "between", "sealed+active", "deleted"} {
				h := append(append([]core.Op(nil), layouts[ln]...), core.Op{Kind: "backup"})
				hists = append(hists, h)
				names = append(names, fmt.Sprintf("fill=%q size=%d layout=%s", fill, n, ln))
			}
		}
	}
	return
}

func c18ValWorker(arg json.RawMessage) interface{} {
	var j c18ValJob
	json.Unmarshal(arg, &j)
	out := &longOut{}
	cfg := core.Cfg{Mode: j.Mode, RW: j.RW, Start: j.RW, Seg: 24576}
	p := c18Profile(j.Tier)
	hists, names := c18ValHistories(j.Tier)
	seen := map[string]bool{}
	for i, h := range hists {
		lf := eng.RunOps(p, cfg, h)
		out.Histories++
		out.Steps += len(h)
		out.Evals += lf.Evals
		if lf.Features["backup"] > 0 {
			out.Merges++ // backups actually taken
		}
		for _, v := range lf.Viol {
			v.Tags = append(v.Tags, "values")
			v.Detail = append([]string{"value-shape family " + names[i]}, v.Detail...)
			if k := v.Kind + v.What; !seen[k] {
				seen[k] = true
				out.Viol = append(out.Viol, v)
			}
		}
		if out.Sample == "" {
			out.Sample = fmt.Sprintf("%s: %s: %d ops", cfg, names[i], len(h))
		}
	}
	return out
}

func runC18Values(r *Run) {
	var args []interface{}
	for _, m := range []int{core.KV, core.K, core.S} {
		for _, rw := range []int{core.F, core.M} {
			args = append(args, c18ValJob{Mode: m, RW: rw, Tier: r.Tier})
		}
	}
	r.Pool.ParallelCustom("c18values", args, func(i int, raw json.RawMessage, okk bool) {
		var o longOut
		if !okk || json.Unmarshal(raw, &o) != nil {
			r.Col.Add(eng.Violation{Prop: "C18", Kind: "hang", What: "values:worker-died", Atoms: []string{"values:worker-died"}, Detail: []string{fmt.Sprintf("value-shape job %+v hung or killed its worker", args[i])}})
			return
		}
		r.Stats.Transitions += o.Steps
		r.Stats.Evals += o.Evals
		r.Stats.Extra["value_shape_histories"] += o.Histories
		r.Stats.Extra["value_shape_backups"] += o.Merges
		for k := 0; k < o.Histories; k++ {
			r.Stats.States[fmt.Sprintf("c18values%d/%d", i, k)] = true
		}
		if o.Sample != "" && len(r.Stats.Samples) < 10 {
			r.Stats.Samples = append(r.Stats.Samples, "value-shape family "+o.Sample)
		}
		for _, v := range o.Viol {
			r.Col.Add(v)
		}
	})
}

func init() { customHandlers["c18values"] = c18ValWorker }

// The same value-shape grid for C01 (write, read back, reopen, read back) and C15 (Merge in
// between): every step of every history is judged against the reference model.

type valJob struct {
	Mode  int    `json:"mode"`
	RW    int    `json:"rw"`
	Prop  string `json:"prop"`
	Merge bool   `json:"merge"`
}

func valWorker(arg json.RawMessage) interface{} {
	var j valJob
	json.Unmarshal(arg, &j)
	out := &longOut{}
	cfg := core.Cfg{Mode: j.Mode, RW: j.RW, Start: j.RW, Seg: 24576}
	queries := mixedObsFor(cfg)
	queries = append(queries, core.Call{F: "Get", B: bKV, K: "zb"}, core.Call{F: "Get", B: bKV, K: "zc"})
	hists, names := c18ValHistories("")
	seen := map[string]bool{}
	for i, h := range hists {
		ops := append([]core.Op(nil), h[:len(h)-1]...) // without the backup
		if j.Merge {
			ops = append(ops, core.Op{Kind: "merge"})
		}
		ops = append(ops, core.Op{Kind: "reopen"}, up(core.Call{F: "Put", B: bKV, K: "ab", V: "after"}), core.Op{Kind: "reopen"})
		out.Histories++
		in := core.OpenInst(cfg)
		for si, op := range ops {
			r := in.Apply(op)
			out.Steps++
			add := func(kind string, bad []core.Mismatch, detail string) {
				v := eng.Violation{Prop: j.Prop, Kind: kind, Cfg: cfg, Ops: ops[:si+1], Tags: []string{"values"}, Extra: map[string]interface{}{"profile": "long"}}
				for _, mm := range bad {
					v.Atoms = append(v.Atoms, mm.Atom())
					v.Detail = append(v.Detail, mm.String())
				}
				if len(v.Atoms) == 0 {
					v.Atoms = []string{kind}
				}
				v.Atoms = uniq(v.Atoms)
				v.What = v.Atoms[0]
				v.Detail = append([]string{fmt.Sprintf("value-shape family %s, step %d %s: %s", names[i], si+1, op, detail)}, v.Detail...)
				if k := kind + v.What; !seen[k] {
					seen[k] = true
					out.Viol = append(out.Viol, v)
				}
			}
			if r.Panic != "" {
				add("panic", nil, r.Panic)
				break
			}
			if op.Kind == "reopen" && r.Err {
				add("open-error", nil, r.Msg)
				break
			}
			if op.Kind == "merge" {
				if r.Err {
					out.Merges++ // Merge refused (e.g. a single file): nothing to judge beyond the observation
				} else {
					out.MergeOK++
				}
			} else if len(r.Bad) > 0 || len(r.Notes) > 0 {
				add("call-result", r.Bad, fmt.Sprint(r.Notes))
				break
			}
			obs, err := in.Observe(queries)
			if err != nil {
				add("obs-failed", nil, err.Error())
				break
			}
			out.Evals += len(obs)
			if bad := core.CheckObs(in.Model, queries, obs); len(bad) > 0 {
				kind := "obs-mismatch"
				if j.Merge && si >= len(h)-1 {
					kind = "merge-changed-reads"
				}
				add(kind, bad, "observation vs model")
				break
			}
		}
		in.Discard()
		if out.Sample == "" {
			out.Sample = fmt.Sprintf("%s: %s: %d steps", cfg, names[i], len(ops))
		}
	}
	return out
}

// runValues runs the value-shape grid for a property (C01: plain; C15: with Merge).
func runValues(r *Run, prop string, merge bool, modes []int) {
	var args []interface{}
	for _, m := range modes {
		for _, rw := range []int{core.F, core.M} {
			args = append(args, valJob{Mode: m, RW: rw, Prop: prop, Merge: merge})
		}
	}
	r.Pool.ParallelCustom("values", args, func(i int, raw json.RawMessage, okk bool) {
		var o longOut
		if !okk || json.Unmarshal(raw, &o) != nil {
			r.Col.Add(eng.Violation{Prop: prop, Kind: "hang", What: "values:worker-died", Atoms: []string{"values:worker-died"}, Detail: []string{fmt.Sprintf("value-shape job %+v hung or killed its worker", args[i])}})
			return
		}
		r.Stats.Transitions += o.Steps
		r.Stats.Evals += o.Evals
		r.Stats.Extra["value_shape_histories"] += o.Histories
		r.Stats.Extra["value_shape_merges_ok"] += o.MergeOK
		for k := 0; k < o.Histories; k++ {
			r.Stats.States[fmt.Sprintf("values%d/%d", i, k)] = true
		}
		if o.Sample != "" && len(r.Stats.Samples) < 10 {
			r.Stats.Samples = append(r.Stats.Samples, "value-shape family "+o.Sample)
		}
		for _, v := range o.Viol {
			r.Col.Add(v)
		}
	})
}

func init() { customHandlers["values"] = valWorker }
