package checks

import (
	"verif/mc/core"
	"verif/mc/eng"
)

// crashOps is the workload alphabet of C10/C11: single- and multi-record transactions over all
// structures, a transaction that fails after writing (oversized entry at position 2), and the
// same-millisecond deviation on a following commit.
func crashOps(cfg core.Cfg) []core.Op {
	big := int(cfg.Seg) + 1
	ops := []core.Op{
		up(core.Call{F: "Put", B: bKV, K: "a", V: "x"}),
		up(core.Call{F: "Put", B: bKV, K: "ab", V: "y"}),
		up(core.Call{F: "Delete", B: bKV, K: "a"}),
		up(core.Call{F: "Put", B: bKV, K: "a", V: "m1"}, core.Call{F: "Put", B: bKV, K: "ab", V: "m2"}, core.Call{F: "Put", B: bKV, K: "c", V: "m3"}),
		up(core.Call{F: "Put", B: bKV, K: "a", V: "failed"}, core.Call{F: "Put", B: bKV, K: "ab", Big: big}),
		{Kind: "update", Calls: []core.Call{{F: "Put", B: bKV, K: "c", V: "s"}}, SameMs: true},
	}
	if cfg.Mode == core.KV {
		ops = append(ops,
			up(core.Call{F: "RPush", B: bL, K: "k", Vs: []string{"a", "b"}}),
			up(core.Call{F: "LPop", B: bL, K: "k"}),
			up(core.Call{F: "SAdd", B: bS, K: "k", Vs: []string{"m", "n"}}),
			up(core.Call{F: "SRem", B: bS, K: "k", Vs: []string{"m"}}),
			up(core.Call{F: "ZAdd", B: bZ, K: "a", X: 1, V: "va"}, core.Call{F: "ZAdd", B: bZ, K: "b", X: 2, V: "vb"}),
			up(core.Call{F: "ZPopMin", B: bZ}),
			core.Op{Kind: "update", Calls: []core.Call{{F: "RPush", B: bL, K: "k", Vs: []string{"s"}}}, SameMs: true},
		)
	}
	return ops
}

func crashCfgs(tier string, sync []bool) []core.Cfg {
	var out []core.Cfg
	for _, m := range []int{core.KV, core.K, core.S} {
		for _, rw := range []int{core.F, core.M} {
			for _, sy := range sync {
				out = append(out, core.Cfg{Mode: m, RW: rw, Start: rw, Sync: sy, Seg: 100})
			}
		}
	}
	return out
}

func c10Profile(tier string) *eng.Profile {
	p := &eng.Profile{ID: "C10", Name: "crash",
		Cfgs:  crashCfgs(tier, []bool{false, true}),
		Ops:   crashOps,
		Obs:   mixedObsFor,
		Depth: 2,
	}
	p.Run = func(p *eng.Profile, cfg core.Cfg, ops []core.Op, leaf *eng.Leaf) {
		eng.SetProbeAfterRecovery(true)
		eng.CrashLeaf(p, cfg, ops, leaf, eng.CrashOpt{Prop: "C10", Torn: true, OnlyLastOp: true})
		eng.SetProbeAfterRecovery(false)
	}
	if tier == "thorough" {
		p.Depth = 3
	}
	return p
}

func c11Profile(tier string) *eng.Profile {
	p := &eng.Profile{ID: "C11", Name: "powerloss",
		Cfgs: []core.Cfg{
			{Mode: core.KV, RW: core.F, Start: core.F, Sync: true, Seg: 100}, {Mode: core.KV, RW: core.M, Start: core.M, Sync: true, Seg: 100},
			{Mode: core.S, RW: core.F, Start: core.F, Sync: true, Seg: 100}, {Mode: core.S, RW: core.M, Start: core.M, Sync: true, Seg: 100},
			{Mode: core.K, RW: core.F, Start: core.F, Sync: true, Seg: 100}, {Mode: core.K, RW: core.M, Start: core.M, Sync: true, Seg: 100},
		},
		Ops:   crashOps,
		Obs:   mixedObsFor,
		Depth: 2,
	}
	p.Run = func(p *eng.Profile, cfg core.Cfg, ops []core.Op, leaf *eng.Leaf) {
		eng.CrashLeaf(p, cfg, ops, leaf, eng.CrashOpt{Prop: "C11", PowerLoss: true, OnlyLastOp: true})
	}
	if tier == "thorough" {
		p.Depth = 3
	}
	return p
}

// c11AfterMerge: power loss during a commit that follows a successful Merge (and a reopen): the
// durability of ordinary transactions must not depend on what ran before them.
func c11AfterMergeProfile(tier string) *eng.Profile { return afterMergeProfile(tier, "C11") }

// afterMergeProfile: commits that follow a Merge, under power loss (C11) or process crash (C10).
func afterMergeProfile(tier, id string) *eng.Profile {
	ops := func(cfg core.Cfg) []core.Op {
		return []core.Op{
			up(core.Call{F: "Put", B: bKV, K: "a", V: "m1"}, core.Call{F: "Put", B: bKV, K: "ab", V: "m2"}, core.Call{F: "Put", B: bKV, K: "c", V: "m3"}),
			// a second multi-record transaction with other values: applied in part it equals neither
			// the state before it nor the state after it, whatever preceded it
			up(core.Call{F: "Put", B: bKV, K: "a", V: "n1"}, core.Call{F: "Put", B: bKV, K: "ab", V: "n2"}),
			up(core.Call{F: "Put", B: bKV, K: "a", V: "x"}),
			up(core.Call{F: "Delete", B: bKV, K: "ab"}),
			{Kind: "merge"},
			{Kind: "reopen"},
		}
	}
	p := &eng.Profile{ID: id, Name: "powerloss-after-merge",
		Cfgs:  []core.Cfg{{Mode: core.KV, RW: core.F, Start: core.F, Sync: true, Seg: 100}, {Mode: core.KV, RW: core.M, Start: core.M, Sync: true, Seg: 100}, {Mode: core.K, RW: core.F, Start: core.F, Sync: true, Seg: 100}},
		Ops:   ops,
		Obs:   mixedObsFor,
		Depth: 4,
	}
	if id == "C10" {
		p.Name = "crash-after-merge"
		p.Cfgs = []core.Cfg{{Mode: core.KV, Seg: 100}, {Mode: core.KV, RW: core.M, Start: core.M, Seg: 100}, {Mode: core.K, Seg: 100}}
	}
	p.Run = func(p *eng.Profile, cfg core.Cfg, hist []core.Op, leaf *eng.Leaf) {
		if id == "C10" {
			eng.SetProbeAfterRecovery(true)
			eng.CrashLeaf(p, cfg, hist, leaf, eng.CrashOpt{Prop: "C10", Torn: true, OnlyLastOp: true})
			eng.SetProbeAfterRecovery(false)
		} else {
			eng.CrashLeaf(p, cfg, hist, leaf, eng.CrashOpt{Prop: "C11", PowerLoss: true, OnlyLastOp: true})
		}
		for _, o := range hist[:len(hist)-1] {
			if o.Kind == "merge" && hist[len(hist)-1].IsWrite() {
				if leaf.Features == nil {
					leaf.Features = map[string]int{}
				}
				leaf.Features["commit-after-merge"]++
			}
		}
	}
	if tier == "thorough" {
		p.Depth = 5
	}
	return p
}

// ---------------------------------------------------------------- C16: crash during Merge

func c16Profile(tier string) *eng.Profile {
	ops := func(cfg core.Cfg) []core.Op {
		all := c15Ops(cfg)
		var out []core.Op
		for _, o := range all {
			if o.Kind == "tick" || o.Kind == "reopen" {
				continue
			}
			out = append(out, o)
		}
		return out // the last one is Merge
	}
	p := &eng.Profile{ID: "C16", Name: "merge-crash",
		Cfgs: []core.Cfg{{Mode: core.KV, Seg: 100}, {Mode: core.K, Seg: 100}, {Mode: core.KV, RW: core.M, Start: core.M, Seg: 100}, {Mode: core.K, RW: core.M, Start: core.M, Seg: 100},
			// two 47-byte records fill a segment exactly
			{Mode: core.K, Seg: 94}},
		Ops:   ops,
		Obs:   mixedObsFor,
		Depth: 4,
	}
	p.DepthFor = func(c core.Cfg) int {
		d := 4
		if c.Mode == core.KV {
			d = 3
		}
		if tier == "thorough" {
			d++
		}
		return d
	}
	p.Run = func(p *eng.Profile, cfg core.Cfg, hist []core.Op, leaf *eng.Leaf) {
		if hist[len(hist)-1].Kind != "merge" {
			// a start state: replay it plainly to obtain its canonical state
			lf := eng.RunOps(&eng.Profile{ID: "C16", Name: "setup", Obs: p.Obs, Judge: func(c *eng.Ctx) {
				if len(c.Last.Bad) > 0 || c.Last.Panic != "" {
					c.Add("SETUP", "setup-failed", c.Ops[len(c.Ops)-1].String())
				}
			}}, cfg, hist)
			*leaf = lf
			return
		}
		eng.SetProbeAfterRecovery(true)
		eng.CrashLeaf(p, cfg, hist, leaf, eng.CrashOpt{Prop: "C16", Torn: true, OnlyLastOp: true})
		eng.SetProbeAfterRecovery(false)
		leaf.NoExpand = true
	}
	return p
}

func init() {
	profileBuilders = append(profileBuilders, func(tier string) {
		Register(c10Profile(tier))
		Register(c11Profile(tier))
		Register(c11AfterMergeProfile(tier))
		Register(afterMergeProfile(tier, "C10"))
		Register(c16Profile(tier))
	})
	crashExtra := func(r *Run) {
		r.Level = "fault_enumeration"
	}
	Registry["C10"] = func(r *Run) {
		crashExtra(r)
		r.Rule = "workloads: every history of <=depth ops over the crash alphabet (single/multi-record transactions on all structures, a transaction failing after its first record, same-millisecond commits) from every distinct reachable start state; the file-system event log of the run is recorded by the shims; for EVERY file-mutation point of the last op and every torn prefix of every write (every record-field boundary, 1, m/2, m-1) the directory image is rebuilt, opened with the real Open, observed, and must equal the model after the acknowledged ops or that plus the in-flight committed op; Open must succeed; a second open must show the same. distinct_nontrivial counts distinct workloads that produced torn or multi-event images; a crash-after-merge profile (depth 4/5 over {two multi-record transactions with different values, put, delete, Merge, reopen}) does the same for commits that follow a Merge"
		r.Assume = []string{"process crash: every executed write survives (page cache / MAP_SHARED)", "queries whose clean in-process answer already disagrees with the model (other properties' defects) are excluded per workload and counted"}
		r.Explore(c10Profile(r.Tier), "C10")
		r.Required = append(r.Required, "commit-after-merge")
		r.Explore(afterMergeProfile(r.Tier, "C10"), "C10")
	}
	Registry["C11"] = func(r *Run) {
		crashExtra(r)
		r.Rule = "same workloads with SyncEnable=true; at every event of the last op the power-loss images are built: each file reverts to its content at its last sync, every subset of its later writes is re-applied (the last kept one possibly torn), never-synced files present or absent, removals undone or not (cartesian product over files, capped at 256 images per point and counted when capped); each image is recovered and compared as in C10"
		r.Assume = []string{"a sync of a file makes its directory entry and size durable (taken from the property)"}
		r.Explore(c11Profile(r.Tier), "C11")
		r.Required = append(r.Required, "commit-after-merge")
		r.Explore(c11AfterMergeProfile(r.Tier), "C11")
	}
	Registry["C16"] = func(r *Run) {
		crashExtra(r)
		r.Rule = "start states: every distinct state reached by <=depth-1 ops of the merge alphabet; op under enumeration: Merge; every file-mutation point and torn prefix inside Merge; recovered observation must equal the observation model before Merge; Open must succeed"
		r.Assume = []string{"process crash model as in C10"}
		r.Explore(c16Profile(r.Tier), "C16")
	}
}
