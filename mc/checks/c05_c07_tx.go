package checks

import (
	"verif/mc/core"
	"verif/mc/eng"
)

func c05Profile(tier string) *eng.Profile {
	ops := []core.Op{
		up(core.Call{F: "RPush", B: bL, K: "k", Vs: []string{"a"}}),
		up(core.Call{F: "RPush", B: bL, K: "k", Vs: []string{"b", "a|b"}}),
		up(core.Call{F: "LPush", B: bL, K: "k", Vs: []string{"c", ""}}),
		up(core.Call{F: "RPush", B: bL, K: "j", Vs: []string{"x"}}),
		up(core.Call{F: "RPush", B: bL, K: "a|b", Vs: []string{"x"}}),
		up(core.Call{F: "LPop", B: bL, K: "k"}),
		up(core.Call{F: "RPop", B: bL, K: "k"}),
		up(core.Call{F: "LSet", B: bL, K: "k", I: 0, V: "z"}),
		up(core.Call{F: "LSet", B: bL, K: "k", I: 1, V: "a|b"}),
		up(core.Call{F: "LSet", B: bL, K: "k", I: 7, V: "z"}),
		up(core.Call{F: "LTrim", B: bL, K: "k", I: 0, J: 0}),
		up(core.Call{F: "LTrim", B: bL, K: "k", I: 1, J: -1}),
		up(core.Call{F: "LTrim", B: bL, K: "k", I: -2, J: -1}),
		up(core.Call{F: "LTrim", B: bL, K: "k", I: 5, J: 9}),
		// two index-addressed operations of one transaction on different indexes / different lists
		up(core.Call{F: "LSet", B: bL, K: "k", I: 0, V: "y"}, core.Call{F: "LSet", B: bL, K: "k", I: 1, V: "w"}),
		up(core.Call{F: "LSet", B: bL, K: "k", I: 0, V: "y"}, core.Call{F: "LSet", B: bL, K: "j", I: 0, V: "w"}),
		{Kind: "begin-rollback", Calls: []core.Call{{F: "RPush", B: bL, K: "k", Vs: []string{"r"}}}},
		{Kind: "reopen"},
	}
	for _, c := range []int{0, 1, -1, 2} {
		for _, v := range []string{"a", "a|b"} {
			ops = append(ops, up(core.Call{F: "LRem", B: bL, K: "k", I: c, V: v}))
		}
	}
	var qs []core.Call
	for s := -3; s <= 3; s++ {
		for e := -3; e <= 3; e++ {
			qs = append(qs, core.Call{F: "LRange", B: bL, K: "k", I: s, J: e})
		}
	}
	for _, k := range []string{"k", "j", "a|b", "zz"} {
		qs = append(qs, core.Call{F: "LRange", B: bL, K: k, I: 0, J: -1}, core.Call{F: "LSize", B: bL, K: k}, core.Call{F: "LPeek", B: bL, K: k}, core.Call{F: "RPeek", B: bL, K: k})
	}
	qs = append(qs, core.Call{F: "LRange", B: "nobucket", K: "k", I: 0, J: -1})
	p := &eng.Profile{ID: "C05", Name: "tx-list", Cfgs: []core.Cfg{{Mode: core.KV, Seg: 100}, {Mode: core.KV, RW: core.M, Start: core.M, Seg: 1000}},
		Ops: func(core.Cfg) []core.Op { return ops }, Obs: func(core.Cfg) []core.Call { return qs }, Depth: 3, ReopenLeaf: true,
		Judge: func(c *eng.Ctx) {
			dirFeatures(c)
			eng.JudgeModel(c, "C05")
			if len(c.Leaf.Viol) == 0 {
				eng.JudgeReopen(c, "C09", "C05")
			}
		}}
	if tier == "thorough" {
		p.Depth = 4
	}
	return p
}

func c06Profile(tier string) *eng.Profile {
	ops := []core.Op{
		up(core.Call{F: "SAdd", B: bS, K: "k", Vs: []string{"m"}}),
		up(core.Call{F: "SAdd", B: bS, K: "k", Vs: []string{"n", ""}}),
		up(core.Call{F: "SAdd", B: bS, K: "k", Vs: []string{"m", "m"}}),
		up(core.Call{F: "SAdd", B: bS, K: "j", Vs: []string{"m"}}),
		up(core.Call{F: "SAdd", B: bT, K: "k", Vs: []string{"o"}}),
		up(core.Call{F: "SRem", B: bS, K: "k", Vs: []string{"m"}}),
		up(core.Call{F: "SRem", B: bS, K: "k", Vs: []string{"zz"}}),
		up(core.Call{F: "SRem", B: bS, K: "q", Vs: []string{"m"}}),
		up(core.Call{F: "SRem", B: bS, K: "k", Vs: []string{""}}),
		up(core.Call{F: "SPop", B: bS, K: "k"}),
		up(core.Call{F: "SMoveByOneBucket", B: bS, K: "k", K2: "j", V: "n"}),
		up(core.Call{F: "SMoveByOneBucket", B: bS, K: "k", K2: "j", V: "zz"}),
		up(core.Call{F: "SMoveByTwoBuckets", B: bS, K: "k", B2: bT, K2: "k", V: "m"}),
		up(core.Call{F: "SMoveByOneBucket", B: bS, K: "k", K2: "k", V: "m"}),
		up(core.Call{F: "SMoveByTwoBuckets", B: bS, K: "k", B2: bS, K2: "k", V: "n"}),
		up(core.Call{F: "SMoveByTwoBuckets", B: bT, K: "k", B2: bS, K2: "k", V: "o"}),
		// the destination loses the member earlier in the same transaction (the final state does not
		// depend on what the calls read: remove from j, remove from k, add to j)
		up(core.Call{F: "SRem", B: bS, K: "j", Vs: []string{"m"}}, core.Call{F: "SMoveByOneBucket", B: bS, K: "k", K2: "j", V: "m"}),
		{Kind: "begin-rollback", Calls: []core.Call{{F: "SAdd", B: bS, K: "k", Vs: []string{"r"}}, {F: "SMoveByOneBucket", B: bS, K: "k", K2: "j", V: "m"}}, IgnoreErr: true},
		// removals that are rolled back, and asked of a read-only transaction
		{Kind: "begin-rollback", Calls: []core.Call{{F: "SPop", B: bS, K: "k"}, {F: "SRem", B: bS, K: "j", Vs: []string{"m"}}}, IgnoreErr: true},
		{Kind: "view", Calls: []core.Call{{F: "SPop", B: bS, K: "k"}, {F: "SRem", B: bS, K: "k", Vs: []string{"m"}}}, IgnoreErr: true},
		{Kind: "reopen"},
	}
	var qs []core.Call
	for _, c := range mixedObs() {
		if c.F[0] == 'S' {
			qs = append(qs, c)
		}
	}
	qs = append(qs, core.Call{F: "SAreMembers", B: bS, K: "k", Vs: []string{"m", "n"}}, core.Call{F: "SAreMembers", B: bS, K: "k", Vs: []string{"m"}},
		core.Call{F: "SDiffByOneBucket", B: bS, K: "j", K2: "k"}, core.Call{F: "SMembers", B: "nobucket", K: "k"})
	p := &eng.Profile{ID: "C06", Name: "tx-set", Cfgs: []core.Cfg{{Mode: core.KV, Seg: 100}, {Mode: core.KV, RW: core.M, Start: core.M, Seg: 1000}},
		Ops: func(core.Cfg) []core.Op { return ops }, Obs: func(core.Cfg) []core.Call { return qs }, Depth: 3, ReopenLeaf: true,
		Judge: func(c *eng.Ctx) {
			dirFeatures(c)
			eng.JudgeModel(c, "C06")
			if len(c.Leaf.Viol) == 0 {
				eng.JudgeReopen(c, "C09", "C06")
			}
		}}
	if tier == "thorough" {
		p.Depth = 4
	}
	return p
}

func c07Profile(tier string) *eng.Profile {
	ops := []core.Op{
		up(core.Call{F: "ZAdd", B: bZ, K: "a", X: 1, V: "va"}),
		up(core.Call{F: "ZAdd", B: bZ, K: "b", X: 1, V: "vb"}),
		up(core.Call{F: "ZAdd", B: bZ, K: "a", X: 2, V: "va2"}),
		up(core.Call{F: "ZAdd", B: bZ, K: "", X: 0, V: "ve"}),
		up(core.Call{F: "ZAdd", B: bZ, K: "c", X: -1, V: "vc"}),
		up(core.Call{F: "ZAdd", B: bZ, K: "d", X: 0.0625, V: "vd"}, core.Call{F: "ZAdd", B: bZ, K: "e", X: -2.5e-7, V: ""}),
		// scores that need all 53 bits: neighbours that differ beyond float32 precision
		up(core.Call{F: "ZAdd", B: bZ, K: "f", X: 16777217, V: "vf"}, core.Call{F: "ZAdd", B: bZ, K: "g", X: 16777216, V: "vg"}, core.Call{F: "ZAdd", B: bZ, K: "h", X: 0.123456789012345, V: "vh"}),
		up(core.Call{F: "ZRem", B: bZ, K: "a"}),
		up(core.Call{F: "ZRem", B: bZ, K: ""}),
		up(core.Call{F: "ZRem", B: bZ, K: "zz"}),
		up(core.Call{F: "ZRemRangeByRank", B: bZ, I: 1, J: 1}),
		up(core.Call{F: "ZRemRangeByRank", B: bZ, I: -1, J: -1}),
		up(core.Call{F: "ZRemRangeByRank", B: bZ, I: 1, J: 2}),
		up(core.Call{F: "ZRemRangeByRank", B: bZ, I: 2, J: 1}),
		up(core.Call{F: "ZPopMax", B: bZ}),
		up(core.Call{F: "ZPopMin", B: bZ}),
		{Kind: "reopen"},
	}
	var qs []core.Call
	qs = append(qs, core.Call{F: "ZMembers", B: bZ}, core.Call{F: "ZCard", B: bZ}, core.Call{F: "ZPeekMin", B: bZ}, core.Call{F: "ZPeekMax", B: bZ}, core.Call{F: "ZCard", B: "nobucket"})
	for s := -3; s <= 3; s++ {
		for e := -3; e <= 3; e++ {
			qs = append(qs, core.Call{F: "ZRangeByRank", B: bZ, I: s, J: e})
		}
	}
	bounds := []float64{-2, -1, 0, 1, 2, 3}
	for _, s := range bounds {
		for _, e := range bounds {
			qs = append(qs, core.Call{F: "ZRangeByScore", B: bZ, X: s, Y: e},
				core.Call{F: "ZRangeByScore", B: bZ, X: s, Y: e, Z: &core.ZOpt{ExcludeStart: true}},
				core.Call{F: "ZRangeByScore", B: bZ, X: s, Y: e, Z: &core.ZOpt{ExcludeEnd: true, Limit: 1}},
				core.Call{F: "ZCount", B: bZ, X: s, Y: e, Z: &core.ZOpt{ExcludeStart: true, ExcludeEnd: true}})
		}
	}
	qs = append(qs, core.Call{F: "ZRangeByScore", B: bZ, X: 16777216.5, Y: 16777218}, core.Call{F: "ZCount", B: bZ, X: 0.123456789012345, Y: 0.123456789012345})
	for _, k := range []string{"a", "b", "c", "d", "e", "f", "g", "h", "", "zz"} {
		qs = append(qs, core.Call{F: "ZRank", B: bZ, K: k}, core.Call{F: "ZRevRank", B: bZ, K: k}, core.Call{F: "ZScore", B: bZ, K: k}, core.Call{F: "ZGetByKey", B: bZ, K: k})
	}
	p := &eng.Profile{ID: "C07", Name: "tx-zset", Cfgs: []core.Cfg{{Mode: core.KV, Seg: 100}, {Mode: core.KV, RW: core.M, Start: core.M, Seg: 1000}},
		Ops: func(core.Cfg) []core.Op { return ops }, Obs: func(core.Cfg) []core.Call { return qs }, Depth: 3, ReopenLeaf: true,
		Judge: func(c *eng.Ctx) {
			dirFeatures(c)
			eng.JudgeModel(c, "C07")
			if len(c.Leaf.Viol) == 0 {
				eng.JudgeReopen(c, "C09", "C07")
			}
		}}
	if tier == "thorough" {
		p.Depth = 4
	}
	return p
}

func init() {
	profileBuilders = append(profileBuilders, func(tier string) {
		Register(c05Profile(tier))
		Register(c06Profile(tier))
		Register(c07Profile(tier))
	})
	Registry["C05"] = func(r *Run) {
		r.Rule = "structure level: every state of ds/list with <=3 (thorough 4) elements over values {a,b,'a|b',''} x every call: LRange/Ltrim over all index pairs in {MinInt64,-n-2..n+1,MaxInt64}, LRem over all counts x values, LSet, pushes, pops, peeks, size (closed state space); transaction level: every sequence of <=depth transactions over pushes, pops, LRem/LSet/LTrim (in- and out-of-range), a '|' key, rollback, reopen; results and contents vs a Redis-style list model, also after close+reopen. Out-of-range bounds accept the clamped answer or an error; panics never"
		r.Assume = []string{"values outside the alphabet not covered; 'plus long random sequences' of the quantifier is sampling and not part of this family"}
		r.Required = []string{"reopen", "reopen-at-leaf"}
		runStruct(r, "list", r.Tier == "thorough")
		r.Explore(c05Profile(r.Tier), "C05")
	}
	Registry["C06"] = func(r *Run) {
		r.Rule = "structure level: all 81 states of ds/set over two keys (absent or any subset of members {'',m,n}) x every call (SAdd/SRem/SPop/membership/cardinality/diff/union over present and absent keys); transaction level: every sequence of <=depth transactions over SAdd (repeated and empty members), SRem (present/absent member, absent key, empty member), SPop, SMoveByOneBucket/TwoBuckets (member and non-member), rollback, reopen in two buckets; every read vs the set model, also after close+reopen (SMove durability)"
		r.Assume = []string{"SPop may return any member (Go map order is not controlled); ds/set.SMove is not driven at structure level: no Tx API reaches it"}
		r.Required = []string{"reopen", "reopen-at-leaf"}
		runStruct(r, "set", false)
		r.Explore(c06Profile(r.Tier), "C06")
	}
	Registry["C07"] = func(r *Run) {
		r.Rule = "structure level: skip-list levels are environment answers (math/rand shim), so every reachable layout of members {'',a,b[,c]} x scores {-1,0,1} x levels {1,2,3} is explored to closure; in every state the structural invariants (sorted chain, spans, backward/tail, Dict<->chain) and every query argument (GetByScoreRange 6x6 bounds x exclude flags x limits, GetByRankRange -6..6, FindRank/FindRevRank/GetByKey, peeks) are checked against the (score,key)-ordered model, and every returned node must be a member; transaction level: every sequence of <=depth transactions over ZAdd/ZRem/ZRemRangeByRank/ZPop* + reopen, all reads vs the model, also after reopen"
		r.Assume = []string{"NaN scores excluded ((score,key) is not an order with NaN); ranks outside [-n,-1]u[1,n] accept any contiguous ordered run of members"}
		r.Required = []string{"reopen", "reopen-at-leaf"}
		runStruct(r, "zset", r.Tier == "thorough")
		r.Explore(c07Profile(r.Tier), "C07")
	}
}
