package checks

func init() {
	Registry["C09"] = func(r *Run) {
		r.Level = "fault_enumeration"
		r.Rule = "clean part: every sequence of <=depth ops of the mixed and KV alphabets (incl. commit-time no-ops, reads of never-written buckets in the observation, exact-fill segment sizes) in all index modes x RWMode x StartFileLoadingMode, closed and reopened at every explored state: Open must return nil; the same over C08's many-files histories (up to 24 one-record segments, restarts in between); crash part: every process-crash image of C10's workloads must open (counted in crash_images)"
		r.Assume = []string{"directories are produced only by this library through the explored histories"}
		r.Required = []string{"reopen-at-leaf", "exact-fill-segment"}
		for _, p := range c09Profiles(r.Tier) {
			r.Explore(p, "C09")
		}
		// directories with two-digit file ids, restarted, written to again and restarted
		r.Explore(c08ManyFilesProfile(r.Tier), "C09")
		c09CrashPart(r)
	}
}
