// Package eng holds the exploration engines.  hist.go is E1: bounded exhaustive enumeration of
// operation sequences on the real database (DESIGN.md 3.1).
package eng

import (
	"fmt"
	"os"
	"path/filepath"
	"regexp"
	"sort"
	"strings"
	"time"

	"verif/mc/core"
)

// Violation is one oracle failure on one explored history.
type Violation struct {
	Prop   string    `json:"property"`
	Kind   string    `json:"kind"`
	Cfg    core.Cfg  `json:"cfg"`
	Ops    []core.Op `json:"ops"`
	Detail []string  `json:"detail"`
	// Atoms name the failing call sites and symptoms ("PrefixScan(nolimit):missing"); each is
	// matched against the known findings separately.  What is the first of them.
	Atoms []string `json:"atoms"`
	What  string   `json:"what"`
	Tags  []string `json:"tags,omitempty"` // structural facts of the history (rot, reopen, tick, multi...)
	Sig   string   `json:"sig,omitempty"`
	// Extra carries engine-specific replay data (crash point, schedule...).
	Extra map[string]interface{} `json:"extra,omitempty"`
}

// Leaf is the result of executing one history.
type Leaf struct {
	Seq        []int          `json:"seq"`
	Kappa      string         `json:"kappa,omitempty"`
	ModelHash  string         `json:"model,omitempty"`
	ObsHash    string         `json:"obs,omitempty"`
	Viol       []Violation    `json:"viol,omitempty"`
	Evals      int            `json:"evals"`
	Nontrivial bool           `json:"nontrivial,omitempty"`
	Features   map[string]int `json:"features,omitempty"`
	NoExpand   bool           `json:"noexpand,omitempty"`
	Extra      map[string]int `json:"extra,omitempty"` // additional counters summed into the evidence
}

// Ctx is what a profile's Judge sees for one history.
type Ctx struct {
	P         *Profile
	Cfg       core.Cfg
	Ops       []core.Op
	Inst      *core.Inst
	Last      core.OpResult // result of the last op
	ModelPrev *core.State   // model before the last op
	Queries   []core.Call
	ObsPrev   []core.Res // observation before the last op (when P.ObsBefore)
	Obs       []core.Res // observation after the last op
	ObsErr    error
	ObsReopen []core.Res // observation after close+open (when P.ReopenLeaf)
	ReopenErr error
	Leaf      *Leaf
}

// Add records a violation with one atom.
func (c *Ctx) Add(prop, kind, what string, detail ...string) {
	c.Leaf.Viol = append(c.Leaf.Viol, Violation{Prop: prop, Kind: kind, Cfg: c.Cfg, Ops: c.Ops, Detail: detail, What: what, Atoms: []string{what}, Tags: c.Tags()})
}

// AddBad records a violation made of call/query mismatches.
func (c *Ctx) AddBad(prop, kind string, bad []core.Mismatch) {
	v := Violation{Prop: prop, Kind: kind, Cfg: c.Cfg, Ops: c.Ops, Tags: c.Tags()}
	seen := map[string]bool{}
	for _, m := range bad {
		v.Detail = append(v.Detail, m.String())
		if a := m.Atom(); !seen[a] {
			seen[a] = true
			v.Atoms = append(v.Atoms, a)
		}
	}
	sort.Strings(v.Atoms)
	v.What = v.Atoms[0]
	c.Leaf.Viol = append(c.Leaf.Viol, v)
}

// Tags lists structural facts of the history that select code paths.
func (c *Ctx) Tags() []string {
	t := map[string]bool{}
	for _, o := range c.Ops {
		switch o.Kind {
		case "reopen", "tick", "merge", "backup":
			t[o.Kind] = true
		}
		if o.SameMs {
			t["samems"] = true
		}
		if o.Fault != nil {
			t["fault"] = true
		}
		for _, cl := range o.Calls {
			if len(cl.F) > 1 && cl.F[0] == 'S' && cl.F != "SMembers" {
				if cl.F == "SAdd" || cl.F == "SRem" {
					for _, v := range cl.Vs {
						if v == "" {
							t["empty-member"] = true
						}
					}
				} else if cl.V == "" && (cl.F == "SMoveByOneBucket" || cl.F == "SMoveByTwoBuckets") {
					t["empty-member"] = true
				}
			}
		}
	}
	if c.Inst != nil {
		if m, _ := filepath.Glob(filepath.Join(c.Inst.Dir, "*.dat")); len(m) > 1 {
			t["rot"] = true
		}
	}
	var out []string
	for k := range t {
		out = append(out, k)
	}
	sort.Strings(out)
	return out
}

// Feature counts a covered feature.
func (c *Ctx) Feature(name string) {
	if c.Leaf.Features == nil {
		c.Leaf.Features = map[string]int{}
	}
	c.Leaf.Features[name]++
}

// Profile describes one E1 exploration.
type Profile struct {
	ID         string
	Name       string
	Cfgs       []core.Cfg
	Ops        func(cfg core.Cfg) []core.Op
	Obs        func(cfg core.Cfg) []core.Call
	Depth      int
	DepthFor   func(cfg core.Cfg) int // optional per-configuration depth
	ObsBefore  bool                   // also observe before the last op
	ReopenLeaf bool                   // close, reopen and observe again at every leaf
	NoKappa    bool                   // do not deduplicate states
	Judge      func(c *Ctx)
	// Run, when set, replaces the standard leaf execution.
	Run func(p *Profile, cfg core.Cfg, ops []core.Op, leaf *Leaf)
}

func callName(s string) string {
	if i := strings.IndexAny(s, "( :"); i > 0 {
		return s[:i]
	}
	return s
}

// RunLeaf executes one history on a fresh database and judges it.
func RunLeaf(p *Profile, cfg core.Cfg, alphabet []core.Op, seq []int) (leaf Leaf) {
	ops := make([]core.Op, len(seq))
	for i, j := range seq {
		ops[i] = alphabet[j]
	}
	leaf = RunOps(p, cfg, ops)
	leaf.Seq = seq
	return
}

// RunOps executes an explicit history (used by the explorer, the minimiser and replay).
func RunOps(p *Profile, cfg core.Cfg, ops []core.Op) (leaf Leaf) {
	if p.Run != nil {
		p.Run(p, cfg, ops, &leaf)
		return
	}
	in := core.OpenInst(cfg)
	defer in.Discard()
	c := &Ctx{P: p, Cfg: cfg, Ops: ops, Inst: in, Leaf: &leaf, Queries: p.Obs(cfg)}
	if in.OpenErr != nil {
		c.Add("C09", "open-error", "Open(fresh)", in.OpenErr.Error())
		leaf.NoExpand = true
		return
	}
	for i, op := range ops {
		if i == len(ops)-1 {
			c.ModelPrev = in.Model.Clone()
			if p.ObsBefore {
				c.ObsPrev, _ = in.Observe(c.Queries)
			}
		}
		r := in.Apply(op)
		if i == len(ops)-1 {
			c.Last = r
		} else if in.Poisoned != "" || (op.Kind == "reopen" && in.OpenErr != nil) {
			// cannot happen for a clean prefix; be loud rather than silently vacuous
			c.Add(p.ID, "prefix-broken", op.String(), "a prefix op left the instance unusable: "+r.Msg+r.Panic)
			leaf.NoExpand = true
			return
		}
	}
	if in.Poisoned == "" && in.DB != nil {
		c.Obs, c.ObsErr = in.Observe(c.Queries)
		leaf.Evals += len(c.Obs)
	}
	kappa := ""
	if !p.NoKappa && in.Poisoned == "" && in.DB != nil {
		kappa = in.Kappa()
	}
	if p.ReopenLeaf && in.Poisoned == "" && in.DB != nil {
		if err := in.DB.Close(); err != nil {
			c.ReopenErr = fmt.Errorf("Close: %v", err)
		} else {
			in.DB = nil
			func() {
				defer func() {
					if r := recover(); r != nil {
						c.ReopenErr = fmt.Errorf("Open panicked: %v", r)
						in.Poisoned = fmt.Sprint(r)
					}
				}()
				db, err := nutsOpen(in)
				if err != nil {
					c.ReopenErr = err
				} else {
					in.DB = db
					c.ObsReopen, _ = in.Observe(c.Queries)
					leaf.Evals += len(c.ObsReopen)
				}
			}()
		}
		c.Feature("reopen-at-leaf")
	}
	// generic facts
	nOK, nErr := 0, 0
	var ob strings.Builder
	for _, r := range c.Obs {
		if r.Err {
			nErr++
		} else if r.Val != "[]" && r.Val != "0" && r.Val != "false" {
			nOK++
		}
		ob.WriteString(r.String())
		ob.WriteByte('\n')
	}
	leaf.Nontrivial = nOK > 0 && nErr > 0
	leaf.ObsHash = core.Hash(ob.String())
	leaf.ModelHash = core.Hash(in.Model.Canon())
	if p.Judge != nil {
		p.Judge(c)
	}
	if len(leaf.Viol) > 0 || in.Poisoned != "" || in.DB == nil {
		leaf.NoExpand = true
	}
	if !leaf.NoExpand {
		leaf.Kappa = kappa
	}
	return
}

// JudgeModel is the reference-model oracle: the calls of the last op and every observation query
// must be allowed by the model; panics are never allowed.
func JudgeModel(c *Ctx, prop string) {
	last := c.Ops[len(c.Ops)-1]
	if c.Last.Panic != "" {
		c.Add(prop, "panic", last.Kind+":"+callNames(last), c.Last.Panic)
		return
	}
	if len(c.Last.Bad) > 0 {
		c.AddBad(prop, "call-result", c.Last.Bad)
		return
	}
	for _, n := range c.Last.Notes {
		c.Add(prop, "op-outcome", last.Kind+":"+outcomeClass(n), n)
		return
	}
	if c.ObsErr != nil {
		c.Add(prop, "obs-failed", "View", c.ObsErr.Error())
		return
	}
	if bad := core.CheckObs(c.Inst.Model, c.Queries, c.Obs); len(bad) > 0 {
		c.AddBad(prop, "obs-mismatch", bad)
	}
}

func outcomeClass(n string) string {
	for _, k := range []string{"failed unexpectedly", "succeeded although", "finished transaction", "Close failed"} {
		if strings.Contains(n, k) {
			return strings.Replace(k, " ", "-", -1)
		}
	}
	return "other"
}

// JudgeReopen is the differential oracle of C08/C09: Open succeeds and shows the same observation.
func JudgeReopen(c *Ctx, propOpen, propSame string) {
	if c.ReopenErr != nil {
		if propOpen != "" {
			c.Add(propOpen, "open-error", ErrClass(c.ReopenErr.Error()), c.ReopenErr.Error())
		}
		return
	}
	if propSame != "" && c.ObsReopen != nil {
		if d := core.DiffObs(c.Queries, c.Obs, c.ObsReopen); len(d) > 0 {
			c.AddBad(propSame, "reopen-diff", d)
		}
	}
}

// CallNames lists the call names of an op.
func CallNames(op core.Op) string { return callNames(op) }

func callNames(op core.Op) string {
	var n []string
	for _, c := range op.Calls {
		n = append(n, c.F)
	}
	return strings.Join(n, ";")
}

// ErrClass abstracts an error message to a stable class.
var pathRe = regexp.MustCompile(`/[^ :]*`)

func ErrClass(msg string) string {
	msg = pathRe.ReplaceAllString(msg, "<path>") // scratch directory names differ per history
	for _, k := range []string{"crc error", "EOF", "offset out of mapped region", "SRem", "listIdx", "panicked", "not support", "no such file", "err EntryIdxMode"} {
		if strings.Contains(msg, k) {
			return strings.Replace(k, " ", "-", -1)
		}
	}
	if len(msg) > 40 {
		msg = msg[:40]
	}
	return msg
}

// Stats accumulates coverage over an exploration.
type Stats struct {
	States      map[string]bool
	Models      map[string]bool
	Outcomes    map[string]bool
	Nontrivial  map[string]bool
	Transitions int
	Evals       int
	Features    map[string]int
	Extra       map[string]int
	DepthDone   int
	PerCfg      map[string]int
	Samples     []string
	CapsHit     []string
	Exhaustive  bool
	CfgDepth    map[string]int
	CfgWall     map[string]float64
	depthSet    bool
}

// NewStats returns empty statistics.
func NewStats() *Stats {
	return &Stats{States: map[string]bool{}, Models: map[string]bool{}, Outcomes: map[string]bool{},
		Nontrivial: map[string]bool{}, Features: map[string]int{}, Extra: map[string]int{}, PerCfg: map[string]int{}, Exhaustive: true, CfgDepth: map[string]int{}, CfgWall: map[string]float64{}}
}

// Runner executes batches of leaves (in worker processes).
type Runner interface {
	// RunBatch runs the sequences of one configuration and returns the leaves in order.
	RunBatch(profile string, cfg int, seqs [][]int, stop func() bool) []Leaf
}

// Explore runs the breadth-first enumeration of one profile over all its configurations.
func Explore(p *Profile, r Runner, deadline func() bool, st *Stats, onViol func(Violation)) {
	for ci, cfg := range p.Cfgs {
		if only := os.Getenv("VERIF_ONLY_CFG"); only != "" && !strings.Contains(cfg.String(), only) {
			continue
		}
		t0 := time.Now()
		alphabet := p.Ops(cfg)
		frontier := [][]int{{}}
		seenK := map[string]bool{}
		done := 0
		maxDepth := p.Depth
		if p.DepthFor != nil {
			maxDepth = p.DepthFor(cfg)
		}
		for depth := 1; depth <= maxDepth; depth++ {
			var seqs [][]int
			for _, pre := range frontier {
				for j := range alphabet {
					s := append(append([]int(nil), pre...), j)
					seqs = append(seqs, s)
				}
			}
			if len(seqs) == 0 {
				break
			}
			if deadline() {
				st.Exhaustive = false
				st.CapsHit = append(st.CapsHit, fmt.Sprintf("%s: deadline before depth %d", cfg, depth))
				break
			}
			leaves := r.RunBatch(p.ID+"/"+p.Name, ci, seqs, deadline)
			if leaves == nil {
				st.Exhaustive = false
				st.CapsHit = append(st.CapsHit, fmt.Sprintf("%s: deadline inside depth %d", cfg, depth))
				break
			}
			if len(leaves) != len(seqs) {
				fmt.Fprintf(os.Stderr, "HARNESS-ERROR: batch returned %d of %d leaves\n", len(leaves), len(seqs))
				os.Exit(2)
			}
			var next [][]int
			for _, lf := range leaves {
				st.Transitions++
				st.PerCfg[cfg.String()]++
				st.Evals += lf.Evals
				st.Outcomes[lf.ObsHash] = true
				if lf.Nontrivial {
					st.Nontrivial[lf.ModelHash+"/"+cfg.String()] = true
				}
				st.Models[lf.ModelHash] = true
				for k, v := range lf.Features {
					st.Features[k] += v
				}
				for k, v := range lf.Extra {
					st.Extra[k] += v
				}
				for _, v := range lf.Viol {
					if v.Prop == "HANG" {
						v.Prop, v.Cfg = p.ID, cfg
						for _, j := range lf.Seq {
							v.Ops = append(v.Ops, alphabet[j])
						}
					}
					if v.Extra == nil {
						v.Extra = map[string]interface{}{}
					}
					v.Extra["profile"] = p.ID + "/" + p.Name
					onViol(v)
				}
				if lf.NoExpand {
					if len(lf.Viol) == 0 && p.Run != nil {
						st.States[cfg.String()+"/leaf/"+lf.ObsHash] = true // terminal states of custom leaves
					}
					continue
				}
				if lf.Kappa != "" {
					if seenK[lf.Kappa] {
						continue
					}
					seenK[lf.Kappa] = true
					st.States[cfg.String()+"/"+lf.Kappa] = true
				} else {
					st.States[cfg.String()+"/"+fmt.Sprint(lf.Seq)] = true
				}
				next = append(next, lf.Seq)
			}
			if len(st.Samples) < 6 && len(leaves) > 0 {
				for _, idx := range []int{0, len(leaves) - 1} {
					var parts []string
					for _, j := range leaves[idx].Seq {
						parts = append(parts, alphabet[j].String())
					}
					st.Samples = append(st.Samples, cfg.String()+": "+strings.Join(parts, " ; "))
				}
			}
			done = depth
			frontier = next
		}
		if !st.depthSet || done < st.DepthDone {
			st.DepthDone, st.depthSet = done, true
		}
		st.CfgDepth[cfg.String()] = done
		st.CfgWall[cfg.String()] = time.Since(t0).Seconds()
	}
}

// SortedKeys returns the keys of a counter map.
func SortedKeys(m map[string]int) []string {
	var ks []string
	for k := range m {
		ks = append(ks, k)
	}
	sort.Strings(ks)
	return ks
}
