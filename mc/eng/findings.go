package eng

import (
	"encoding/json"
	"fmt"
	"io/ioutil"
	"os"
	"path/filepath"
	"sort"
	"strings"

	"verif/mc/core"
)

// Finding is one entry of /verif/known_findings.json.
type Finding struct {
	Property  string `json:"property"`
	Signature string `json:"signature"` // exact, or a pattern with * wildcards
	Status    string `json:"status"`    // open | fixed
	What      string `json:"what"`
	Commit    string `json:"commit,omitempty"`
	Example   string `json:"example,omitempty"`
}

// Findings is the known-findings file.
type Findings struct {
	Findings []Finding `json:"findings"`
}

// LoadFindings reads the file (a missing file is an empty list).
func LoadFindings(path string) *Findings {
	f := &Findings{}
	b, err := ioutil.ReadFile(path)
	if err != nil {
		return f
	}
	if err := json.Unmarshal(b, f); err != nil {
		fmt.Fprintf(os.Stderr, "HARNESS-ERROR: %s: %v\n", path, err)
		os.Exit(2)
	}
	return f
}

func globMatch(pat, s string) bool {
	if !strings.Contains(pat, "*") {
		return pat == s
	}
	parts := strings.Split(pat, "*")
	if !strings.HasPrefix(s, parts[0]) {
		return false
	}
	s = s[len(parts[0]):]
	for i := 1; i < len(parts); i++ {
		p := parts[i]
		if i == len(parts)-1 {
			return strings.HasSuffix(s, p)
		}
		j := strings.Index(s, p)
		if j < 0 {
			return false
		}
		s = s[j+len(p):]
	}
	return true
}

// Match returns the open finding that lists this signature, if any.
func (f *Findings) Match(prop, sig string) *Finding {
	for i := range f.Findings {
		k := &f.Findings[i]
		if k.Status == "open" && k.Property == prop && globMatch(k.Signature, sig) {
			return k
		}
	}
	return nil
}

// Shape abstracts a history to op kinds and call names.
func Shape(ops []core.Op) string {
	var parts []string
	for _, o := range ops {
		s := o.Kind
		if len(o.Calls) > 0 {
			s += "[" + callNames(o) + "]"
		}
		if o.ErrAfter > 0 {
			s += "!body"
		}
		if o.IgnoreErr {
			s += "!ign"
		}
		if o.SameMs {
			s += "!samems"
		}
		if o.Fault != nil {
			s += "!fault"
		}
		parts = append(parts, s)
	}
	return strings.Join(parts, ";")
}

// CfgClass is the configuration part of a signature.
func CfgClass(c core.Cfg) string {
	return [...]string{"KV", "K", "S"}[c.Mode] + "/" + [...]string{"F", "M"}[c.RW]
}

// Collector classifies violations against the known findings and writes replay files.
type Collector struct {
	Known     *Findings
	ReplayDir string
	Minimise  func(v Violation) Violation // optional
	memoV     map[string]Violation // un-minimised key -> minimised violation
	KnownSeen map[string]int // signature -> count
	KnownWhat map[string]*Finding
	New       map[string]Violation // signature -> first violation
	NewCount  map[string]int
	Total     int
}

// NewCollector returns a collector.
func NewCollector(known *Findings, replayDir string) *Collector {
	return &Collector{Known: known, ReplayDir: replayDir, memoV: map[string]Violation{},
		KnownSeen: map[string]int{}, KnownWhat: map[string]*Finding{}, New: map[string]Violation{}, NewCount: map[string]int{}}
}

// SigsOf computes the signatures of a (minimised) violation, one per atom:
// property|kind|call-site:symptom|config class|tags.
func SigsOf(v Violation) []string {
	var out []string
	atoms := v.Atoms
	if len(atoms) == 0 {
		// never drop a violation because its producer named no atom
		atoms = []string{v.What}
	}
	for _, a := range atoms {
		out = append(out, fmt.Sprintf("%s|%s|%s|%s|%s", v.Prop, v.Kind, a, CfgClass(v.Cfg), strings.Join(v.Tags, ",")))
	}
	return out
}

func memoKey(v Violation) string {
	return fmt.Sprintf("%s|%s|%s|%s|%s", v.Prop, v.Kind, strings.Join(v.Atoms, "+"), CfgClass(v.Cfg), Shape(v.Ops))
}

// Add classifies one violation.
func (c *Collector) Add(v Violation) {
	c.Total++
	key := memoKey(v)
	mv, ok := c.memoV[key]
	if !ok {
		mv = v
		if c.Minimise != nil {
			mv = c.Minimise(v)
		}
		c.memoV[key] = mv
	}
	for _, sig := range SigsOf(mv) {
		if k := c.Known.Match(v.Prop, sig); k != nil {
			c.KnownSeen[sig]++
			c.KnownWhat[sig] = k
			continue
		}
		if _, seen := c.New[sig]; !seen {
			w := mv
			w.Sig = sig
			c.New[sig] = w
		}
		c.NewCount[sig]++
	}
}

// Report prints KNOWN-FINDING / VIOLATION lines, writes replay files and returns the number of
// unlisted violations.
func (c *Collector) Report(prop string) int {
	printed := map[string]bool{}
	var sigs []string
	for s := range c.KnownSeen {
		sigs = append(sigs, s)
	}
	sort.Strings(sigs)
	for _, s := range sigs {
		k := c.KnownWhat[s]
		if !printed[k.What] {
			printed[k.What] = true
			fmt.Printf("KNOWN-FINDING: property=%s %s\n", k.Property, k.What)
		}
	}
	sigs = nil
	for s := range c.New {
		sigs = append(sigs, s)
	}
	sort.Strings(sigs)
	if dir := os.Getenv("VERIF_EMIT"); dir != "" {
		type em struct {
			Property  string   `json:"property"`
			Signature string   `json:"signature"`
			Count     int      `json:"count"`
			Detail    []string `json:"detail"`
			Ops       []string `json:"ops"`
		}
		var out []em
		for _, s := range sigs {
			v := c.New[s]
			var ops []string
			for _, o := range v.Ops {
				ops = append(ops, o.String())
			}
			d := v.Detail
			if len(d) > 6 {
				d = d[:6]
			}
			out = append(out, em{prop, s, c.NewCount[s], d, ops})
		}
		os.MkdirAll(dir, 0755)
		b, _ := json.MarshalIndent(out, "", " ")
		ioutil.WriteFile(filepath.Join(dir, prop+".json"), b, 0644)
	}
	n := 0
	for _, s := range sigs {
		v := c.New[s]
		path := c.WriteReplay(v)
		fmt.Printf("VIOLATION property=%s replay=%s\n", v.Prop, path)
		fmt.Printf("  signature: %s  (%d histories)\n", s, c.NewCount[s])
		for i, d := range v.Detail {
			if i >= 4 {
				fmt.Printf("  ... %d more\n", len(v.Detail)-i)
				break
			}
			fmt.Printf("  %s\n", d)
		}
		n++
	}
	return n
}

// Replay is the content of a replay file.
type Replay struct {
	Profile   string    `json:"profile"`
	Violation Violation `json:"violation"`
}

// WriteReplay stores a violation as a replayable artefact.
func (c *Collector) WriteReplay(v Violation) string {
	dir := filepath.Join(c.ReplayDir, v.Prop)
	os.MkdirAll(dir, 0755)
	path := filepath.Join(dir, core.Hash(v.Sig)+".json")
	prof, _ := v.Extra["profile"].(string)
	b, _ := json.MarshalIndent(Replay{Profile: prof, Violation: v}, "", " ")
	ioutil.WriteFile(path, b, 0644)
	return path
}

// StaleKnown returns the open findings of a property that were not met.
func (c *Collector) StaleKnown(props ...string) []string {
	met := map[*Finding]bool{}
	for _, k := range c.KnownWhat {
		met[k] = true
	}
	var out []string
	for i := range c.Known.Findings {
		k := &c.Known.Findings[i]
		if k.Status != "open" || met[k] {
			continue
		}
		for _, p := range props {
			if k.Property == p {
				out = append(out, k.Signature)
			}
		}
	}
	return out
}
