package eng

import (
	"github.com/xujiajun/nutsdb"

	"verif/mc/core"
)

func nutsOpen(in *core.Inst) (*nutsdb.DB, error) {
	return nutsdb.Open(in.Cfg.Options(in.Dir))
}

// NutsOpen opens the database of an instance's directory with its configuration.
func NutsOpen(in *core.Inst) (*nutsdb.DB, error) { return nutsOpen(in) }
