package eng

import (
	"bufio"
	"encoding/json"
	"fmt"
	"io"
	"os"
	"os/exec"
	"runtime"
	"strconv"
	"sync"
	"sync/atomic"
	"time"
)

// Job is one batch sent to a worker process.
type Job struct {
	Kind    string          `json:"kind"` // hist | custom
	Profile string          `json:"profile"`
	Cfg     int             `json:"cfg"`
	Seqs    [][]int         `json:"seqs,omitempty"`
	Arg     json.RawMessage `json:"arg,omitempty"`
}

// JobResult is a worker's answer: one line per job.
type JobResult struct {
	Leaves []Leaf          `json:"leaves,omitempty"`
	Out    json.RawMessage `json:"out,omitempty"`
	Hang   bool            `json:"hang,omitempty"`
	Done   int             `json:"done"`
}

type worker struct {
	cmd *exec.Cmd
	in  io.WriteCloser
	out *bufio.Reader
}

// Pool is a set of worker processes (the same binary run as `vmc worker`).
type Pool struct {
	N       int
	Tier    string
	mu      sync.Mutex
	idle    []*worker
	all     []*worker
	Crashes int
}

// NewPool creates a pool of n workers (0: one per CPU, at most 16).
func NewPool(n int, tier string) *Pool {
	if v, err := strconv.Atoi(os.Getenv("VERIF_WORKERS")); err == nil && v > 0 {
		n = v
	}
	if n <= 0 {
		n = runtime.NumCPU()
		if n > 12 {
			n = 12
		}
	}
	return &Pool{N: n, Tier: tier}
}

func (p *Pool) spawn() *worker {
	self, _ := os.Executable()
	cmd := exec.Command(self, "worker", "--tier", p.Tier)
	cmd.Stderr = os.Stderr
	cmd.Env = append(os.Environ(), "GOMAXPROCS=1", "VERIF_TIER_INTERNAL="+p.Tier)
	in, _ := cmd.StdinPipe()
	out, _ := cmd.StdoutPipe()
	if err := cmd.Start(); err != nil {
		fmt.Fprintf(os.Stderr, "HARNESS-ERROR: cannot start worker: %v\n", err)
		os.Exit(2)
	}
	w := &worker{cmd: cmd, in: in, out: bufio.NewReaderSize(out, 1<<20)}
	p.mu.Lock()
	p.all = append(p.all, w)
	p.mu.Unlock()
	return w
}

func (p *Pool) get() *worker {
	p.mu.Lock()
	if n := len(p.idle); n > 0 {
		w := p.idle[n-1]
		p.idle = p.idle[:n-1]
		p.mu.Unlock()
		return w
	}
	p.mu.Unlock()
	return p.spawn()
}

func (p *Pool) put(w *worker) {
	p.mu.Lock()
	p.idle = append(p.idle, w)
	p.mu.Unlock()
}

// Close terminates the workers.
func (p *Pool) Close() {
	p.mu.Lock()
	defer p.mu.Unlock()
	for _, w := range p.all {
		w.in.Close()
		done := make(chan struct{})
		go func(w *worker) { w.cmd.Wait(); close(done) }(w)
		select {
		case <-done:
		case <-time.After(2 * time.Second):
			w.cmd.Process.Kill()
		}
	}
	p.all, p.idle = nil, nil
}

// Do sends one job to a worker and waits for the answer.  A worker that dies is replaced; the
// result then has Hang set and Done = number of leaves completed before it died.
func (p *Pool) Do(j Job) JobResult {
	w := p.get()
	b, _ := json.Marshal(j)
	b = append(b, '\n')
	if _, err := w.in.Write(b); err != nil {
		w.cmd.Process.Kill()
		w.cmd.Wait()
		p.mu.Lock()
		p.Crashes++
		p.mu.Unlock()
		return JobResult{Hang: true}
	}
	line, err := w.out.ReadBytes('\n')
	var r JobResult
	if err != nil || json.Unmarshal(line, &r) != nil {
		w.cmd.Process.Kill()
		w.cmd.Wait()
		p.mu.Lock()
		p.Crashes++
		p.mu.Unlock()
		return JobResult{Hang: true}
	}
	if r.Hang {
		// the worker reported a watchdog expiry and exits
		w.cmd.Wait()
		p.mu.Lock()
		p.Crashes++
		p.mu.Unlock()
		return r
	}
	p.put(w)
	return r
}

// RunBatch implements Runner: the sequences are split into chunks run in parallel.
func (p *Pool) RunBatch(profile string, cfg int, seqs [][]int, stop func() bool) []Leaf {
	var aborted int32
	chunk := len(seqs)/(p.N*4) + 1
	if chunk > 200 {
		chunk = 200
	}
	type piece struct{ lo, hi int }
	var pieces []piece
	for lo := 0; lo < len(seqs); lo += chunk {
		hi := lo + chunk
		if hi > len(seqs) {
			hi = len(seqs)
		}
		pieces = append(pieces, piece{lo, hi})
	}
	out := make([]Leaf, len(seqs))
	sem := make(chan struct{}, p.N)
	var wg sync.WaitGroup
	for _, pc := range pieces {
		wg.Add(1)
		sem <- struct{}{}
		go func(pc piece) {
			defer wg.Done()
			defer func() { <-sem }()
			lo := pc.lo
			for lo < pc.hi {
				if stop != nil && stop() {
					atomic.StoreInt32(&aborted, 1)
					return
				}
				r := p.Do(Job{Kind: "hist", Profile: profile, Cfg: cfg, Seqs: seqs[lo:pc.hi]})
				copy(out[lo:], r.Leaves)
				lo += len(r.Leaves)
				if r.Hang && lo < pc.hi {
					// the sequence in flight hung or killed the worker
					out[lo] = Leaf{Seq: seqs[lo], NoExpand: true, Viol: []Violation{{Prop: "HANG", Kind: "hang", What: "worker", Detail: []string{"worker died or exceeded the watchdog on this history"}, Extra: map[string]interface{}{"cfg": cfg}}}}
					lo++
				} else if !r.Hang && len(r.Leaves) == 0 {
					fmt.Fprintln(os.Stderr, "HARNESS-ERROR: worker returned no leaves")
					os.Exit(2)
				}
			}
		}(pc)
	}
	wg.Wait()
	if atomic.LoadInt32(&aborted) != 0 {
		return nil
	}
	return out
}

// Custom runs an engine-specific job.
func (p *Pool) Custom(profile string, arg interface{}) (json.RawMessage, bool) {
	b, _ := json.Marshal(arg)
	r := p.Do(Job{Kind: "custom", Profile: profile, Arg: b})
	return r.Out, !r.Hang
}

// ParallelCustom runs many custom jobs on the pool.
func (p *Pool) ParallelCustom(profile string, args []interface{}, each func(i int, out json.RawMessage, ok bool)) {
	sem := make(chan struct{}, p.N)
	var wg sync.WaitGroup
	var mu sync.Mutex
	for i, a := range args {
		wg.Add(1)
		sem <- struct{}{}
		go func(i int, a interface{}) {
			defer wg.Done()
			defer func() { <-sem }()
			out, ok := p.Custom(profile, a)
			mu.Lock()
			each(i, out, ok)
			mu.Unlock()
		}(i, a)
	}
	wg.Wait()
}

// WorkerLoop is the body of `vmc worker`: it answers jobs read from stdin until EOF.
func WorkerLoop(tier string, hist func(profile string) *Profile, custom func(profile string, arg json.RawMessage) interface{}) {
	in := bufio.NewReaderSize(os.Stdin, 1<<20)
	out := bufio.NewWriter(os.Stdout)
	os.Stdout = os.Stderr // anything the library prints must not corrupt the protocol
	for {
		line, err := in.ReadBytes('\n')
		if err != nil {
			return
		}
		var j Job
		if err := json.Unmarshal(line, &j); err != nil {
			fmt.Fprintf(os.Stderr, "HARNESS-ERROR: worker: bad job: %v\n", err)
			os.Exit(2)
		}
		var res JobResult
		switch j.Kind {
		case "hist":
			p := hist(j.Profile)
			if p == nil {
				fmt.Fprintf(os.Stderr, "HARNESS-ERROR: worker: unknown profile %q\n", j.Profile)
				os.Exit(2)
			}
			cfg := p.Cfgs[j.Cfg]
			alphabet := p.Ops(cfg)
			for _, s := range j.Seqs {
				watch := time.AfterFunc(60*time.Second, func() {
					res.Hang = true
					res.Done = len(res.Leaves)
					b, _ := json.Marshal(res)
					out.Write(b)
					out.WriteByte('\n')
					out.Flush()
					os.Exit(3)
				})
				lf := RunLeaf(p, cfg, alphabet, s)
				watch.Stop()
				res.Leaves = append(res.Leaves, lf)
			}
			res.Done = len(res.Leaves)
		case "custom":
			done := make(chan interface{}, 1)
			go func() { done <- custom(j.Profile, j.Arg) }()
			select {
			case o := <-done:
				res.Out, _ = json.Marshal(o)
			case <-time.After(customTimeout()):
				res.Hang = true
			}
		}
		b, _ := json.Marshal(res)
		out.Write(b)
		out.WriteByte('\n')
		out.Flush()
		if res.Hang {
			os.Exit(3)
		}
	}
}

// customTimeout is the watchdog of one custom job (structure closures, codec shards, schedule
// explorations): 10 minutes in the quick tier, 45 in the thorough tier.
func customTimeout() time.Duration {
	if os.Getenv("VERIF_TIER_INTERNAL") == "thorough" {
		return 45 * time.Minute
	}
	return 10 * time.Minute
}
