package eng

import (
	"crypto/sha1"
	"encoding/hex"
	"fmt"
	"os"
	"path/filepath"
	"sort"
	"strings"

	"github.com/xujiajun/nutsdb/verifshim/vrt"

	"verif/mc/core"
)

// CrashOpt selects what the E2 engine enumerates for one workload.
type CrashOpt struct {
	Prop       string // property the violations are reported under
	PowerLoss  bool   // durable images (unsynced writes dropped) instead of process-crash images
	Torn       bool   // torn prefixes of the write at the crash point
	OnlyLastOp bool   // crash points inside the last op (and right after it) only
	OnlyKinds  []string
	Recovery2  bool // also crash inside the recovery's own mutations (one level)
	MaxViol    int
}

type recorded struct {
	log     []vrt.Event
	models  []*core.State // models[j] = model after j ops
	results []core.OpResult
	qok     []bool // queries whose clean in-process answers agreed with the model throughout
	dir     string
	begin   []int // index of the begin marker of op i
	end     []int // index of the end marker of op i
	kappa   string
	gap     []string
	broken  string
}

// record runs a workload once with the event log on.
func record(cfg core.Cfg, ops []core.Op, queries []core.Call) *recorded {
	rc := &recorded{}
	vrt.Reset()
	vrt.SetMode(vrt.Record)
	defer vrt.SetMode(vrt.Pass)
	in := core.OpenInst(cfg)
	defer in.Discard()
	rc.dir = in.Dir
	if in.OpenErr != nil {
		rc.broken = "open: " + in.OpenErr.Error()
		return rc
	}
	rc.models = append(rc.models, in.Model.Clone())
	for i, op := range ops {
		vrt.Mark(fmt.Sprintf("begin %d", i))
		rc.begin = append(rc.begin, vrt.LogLen()-1)
		if op.Fault == nil {
			vrt.Arm(-1, 0)
		}
		r := in.Apply(op)
		vrt.Mark(fmt.Sprintf("end %d", i))
		rc.end = append(rc.end, vrt.LogLen()-1)
		rc.results = append(rc.results, r)
		rc.models = append(rc.models, in.Model.Clone())
		if in.Poisoned != "" || in.DB == nil {
			rc.broken = "unusable after " + op.String() + ": " + r.Msg + r.Panic
			rc.log = vrt.Log()
			return rc
		}
	}
	rc.log = vrt.Log()
	vrt.SetMode(vrt.Pass)
	rc.kappa = in.Kappa()
	// log conformance: the directory rebuilt from the complete log equals the real one
	fs := NewMemFS(in.Dir)
	for _, ev := range rc.log {
		fs.Apply(ev)
	}
	rc.gap = fs.DiffDir(in.Dir)
	vrt.Reset()
	rc.qok = cleanTwin(cfg, ops, rc.results, queries)
	return rc
}

// cleanTwin decides which observation queries are judged on the crash images of a workload.  A
// query is excluded when its answer disagrees with the model in a run WITHOUT any crash and
// WITHOUT the failed transactions of the workload (the twin history keeps only the ops that
// returned nil): such a disagreement is a functional defect of the read path (another
// property's business), not an effect of a crash or of a failed transaction.
func cleanTwin(cfg core.Cfg, ops []core.Op, results []core.OpResult, queries []core.Call) []bool {
	qok := make([]bool, len(queries))
	for i := range qok {
		qok[i] = true
	}
	in := core.OpenInst(cfg)
	defer in.Discard()
	if in.OpenErr != nil {
		return qok
	}
	check := func() {
		obs, err := in.Observe(queries)
		if err != nil {
			return
		}
		m := in.Model.Clone()
		for i, c := range queries {
			if i < len(obs) && m.Eval(c, obs[i]).Check(obs[i]) != "" {
				qok[i] = false
			}
		}
	}
	for i, op := range ops {
		if i < len(results) && results[i].Err && op.IsWrite() {
			continue
		}
		if i == len(ops)-1 && op.Kind == "merge" {
			// Merge is the operation under enumeration (C16): what a complete Merge itself changes
			// is judged too (the image after its last event), not excused
			break
		}
		op.SameMs = false
		in.Apply(op)
		if in.Poisoned != "" || in.DB == nil {
			break
		}
		check()
	}
	// and once more after a clean reopen of the twin
	if in.Poisoned == "" && in.DB != nil {
		if r := in.Apply(core.Op{Kind: "reopen"}); !r.Err {
			check()
		}
	}
	return qok
}

func changesState(k vrt.EvKind) bool {
	switch k {
	case vrt.EvMkdir, vrt.EvCreate, vrt.EvTruncate, vrt.EvWrite, vrt.EvRemove, vrt.EvRemoveAll, vrt.EvRename:
		return true
	}
	return false
}

func extOf(p string) string {
	e := filepath.Ext(p)
	if e == "" {
		return "dir"
	}
	return e
}

func evDesc(ev vrt.Event) string {
	switch ev.Kind {
	case vrt.EvWrite:
		mm := ""
		if ev.Mmap {
			mm = " mmap"
		}
		return fmt.Sprintf("write%s %s off=%d len=%d", mm, filepath.Base(ev.Path), ev.Off, len(ev.Data))
	case vrt.EvTruncate:
		return fmt.Sprintf("truncate %s size=%d", filepath.Base(ev.Path), ev.Size)
	case vrt.EvMark:
		return "mark " + ev.Tag
	}
	return ev.Kind.String() + " " + filepath.Base(ev.Path)
}

// cutsFor returns the torn-write prefixes to try for one write event.
func cutsFor(ev vrt.Event) []int {
	m := len(ev.Data)
	set := map[int]bool{}
	add := func(c int) {
		if c > 0 && c < m {
			set[c] = true
		}
	}
	add(1)
	add(m / 2)
	add(m - 1)
	switch extOf(ev.Path) {
	case ".dat":
		for _, c := range core.RecordCuts(ev.Data) {
			add(c)
		}
	case ".bptidx", ".bpttxid", ".bptrtxid":
		// BinaryNode: Keys [7]int64, Pointers [8]int64, IsLeaf, KeysNum uint16, Address, NextAddress int64
		for _, c := range []int{8, 56, 64, 120, 122, 124, 132} {
			add(c)
		}
	case ".bptridx":
		for _, c := range []int{4, 12, 20, 24, 28} {
			add(c)
		}
	case ".meta":
		for _, c := range []int{4, 8, 12} {
			add(c)
		}
	}
	var out []int
	for c := range set {
		out = append(out, c)
	}
	sort.Ints(out)
	return out
}

type image struct {
	fs    *MemFS
	point int
	cut   int
	desc  string
	class string
}

// judge opens one image and compares the recovered observation with the allowed model states.
func judgeImage(cfg core.Cfg, im image, queries []core.Call, qok []bool, allowed []*core.State, leaf *Leaf, add func(kind, what string, atoms []string, detail []string, im image)) {
	dir := core.NewDir()
	defer os.RemoveAll(dir)
	if err := im.fs.Materialise(dir); err != nil {
		fmt.Fprintf(os.Stderr, "HARNESS-ERROR: materialise: %v\n", err)
		os.Exit(2)
	}
	core.TheClock.Sec = allowed[0].Now
	in := core.OpenDir(cfg, dir, allowed[0])
	bump(leaf, "opens")
	if in.OpenErr != nil {
		add("open-error", ErrClass(in.OpenErr.Error())+"@"+im.class, nil, []string{in.OpenErr.Error()}, im)
		return
	}
	obs, err := in.Observe(queries)
	leaf.Evals += len(obs)
	if err != nil {
		add("obs-failed", "View@"+im.class, nil, []string{err.Error()}, im)
		return
	}
	var firstBad []core.Mismatch
	matched := false
	var matchedState *core.State
	for ai, st := range allowed {
		var bad []core.Mismatch
		for _, m := range core.CheckObs(st, queries, obs) {
			idx := -1
			for qi := range queries {
				if queries[qi].String() == m.Call.String() {
					idx = qi
					break
				}
			}
			if idx >= 0 && !qok[idx] {
				continue
			}
			bad = append(bad, m)
		}
		if len(bad) == 0 {
			matched = true
			matchedState = st
			if ai == 1 {
				bump(leaf, "recovered_to_inflight_commit")
			}
			break
		}
		if ai == 0 {
			firstBad = bad
		}
	}
	if !matched {
		var atoms, det []string
		seen := map[string]bool{}
		for _, m := range firstBad {
			a := m.Atom() + "@" + im.class
			if !seen[a] {
				seen[a] = true
				atoms = append(atoms, a)
			}
			det = append(det, m.String())
		}
		sort.Strings(atoms)
		add("recovered-state", atoms[0], atoms, det, im)
		in.CloseOnly()
		return
	}
	// the recovered database must be usable: a further committed write (a small record, then one
	// large enough to force a rotation) is visible, leaves everything else unchanged and survives a
	// reopen - a recovery that positions the next write wrongly or leaves debris behind shows here
	if probeAfterRecovery {
		if msg := probeWrites(cfg, in, dir, queries, qok, matchedState, leaf, 0); msg != nil {
			add(msg[0], msg[1]+"@"+im.class, nil, msg[2:], im)
			return
		}
		// the other order on a fresh recovery of the same image: the shortest record first (it ends
		// inside whatever a longer interrupted record left behind), then the rotation
		if im.cut > 0 || probeBothOrders {
			dir2 := core.NewDir()
			defer os.RemoveAll(dir2)
			if err := im.fs.Materialise(dir2); err != nil {
				fmt.Fprintf(os.Stderr, "HARNESS-ERROR: materialise: %v\n", err)
				os.Exit(2)
			}
			core.TheClock.Sec = allowed[0].Now
			in2 := core.OpenDir(cfg, dir2, allowed[0])
			bump(leaf, "opens")
			if in2.OpenErr != nil {
				add("open-error", ErrClass(in2.OpenErr.Error())+"@"+im.class, nil, []string{"second recovery of the same image: " + in2.OpenErr.Error()}, im)
				return
			}
			if msg := probeWrites(cfg, in2, dir2, queries, qok, matchedState, leaf, 1); msg != nil {
				add(msg[0], msg[1]+"@"+im.class, nil, msg[2:], im)
			}
		}
		return
	}
	// recovery is idempotent: close, open once more, same observation
	if err := in.CloseOnly(); err == nil {
		in2 := core.OpenDir(cfg, dir, allowed[0])
		bump(leaf, "opens")
		if in2.OpenErr != nil {
			add("second-open-error", ErrClass(in2.OpenErr.Error())+"@"+im.class, nil, []string{in2.OpenErr.Error()}, im)
			return
		}
		obs2, _ := in2.Observe(queries)
		if d := core.DiffObs(queries, obs, obs2); len(d) > 0 {
			var atoms, det []string
			for _, m := range d {
				atoms = append(atoms, m.Atom()+"@"+im.class)
				det = append(det, m.String())
			}
			add("recovery-not-idempotent", atoms[0], uniqS(atoms), det, im)
		}
		in2.CloseOnly()
	}
}

func uniqS(in []string) []string {
	seen := map[string]bool{}
	var out []string
	for _, s := range in {
		if !seen[s] {
			seen[s] = true
			out = append(out, s)
		}
	}
	sort.Strings(out)
	return out
}

func bump(leaf *Leaf, k string) {
	if leaf.Extra == nil {
		leaf.Extra = map[string]int{}
	}
	leaf.Extra[k]++
}

func fsHash(fs *MemFS) string {
	h := sha1.New()
	var ks []string
	for f := range fs.Files {
		ks = append(ks, f)
	}
	sort.Strings(ks)
	for _, f := range ks {
		h.Write([]byte(f))
		h.Write([]byte{0})
		h.Write(fs.Files[f])
		h.Write([]byte{0})
	}
	var ds []string
	for d := range fs.Dirs {
		ds = append(ds, d)
	}
	sort.Strings(ds)
	h.Write([]byte(strings.Join(ds, "|")))
	return hex.EncodeToString(h.Sum(nil)[:10])
}

// CrashLeaf is the E2 leaf: record the workload, enumerate crash images, recover each.
func CrashLeaf(p *Profile, cfg core.Cfg, ops []core.Op, leaf *Leaf, opt CrashOpt) {
	queries := p.Obs(cfg)
	rc := record(cfg, ops, queries)
	if rc.broken != "" {
		leaf.NoExpand = true
		leaf.Viol = append(leaf.Viol, Violation{Prop: "SETUP", Kind: "workload-broken", Cfg: cfg, Ops: ops, What: "record", Atoms: []string{"record"}, Detail: []string{rc.broken}})
		return
	}
	leaf.Kappa = rc.kappa
	leaf.ModelHash = core.Hash(rc.models[len(rc.models)-1].Canon())
	bump(leaf, "workloads")
	leaf.Extra["events"] += len(rc.log)
	if len(rc.gap) > 0 {
		bump(leaf, "coverage_gap")
		if leaf.Features == nil {
			leaf.Features = map[string]int{}
		}
		leaf.Features["coverage_gap:"+rc.gap[0]]++
	} else {
		bump(leaf, "log_conformance_ok")
	}
	nq := 0
	for _, okq := range rc.qok {
		if okq {
			nq++
		}
	}
	leaf.Extra["queries_judged"] += nq
	leaf.Extra["queries_excluded_by_clean_run"] += len(rc.qok) - nq

	maxViol := opt.MaxViol
	if maxViol == 0 {
		maxViol = 6
	}
	seenAtom := map[string]bool{}
	add := func(kind, what string, atoms []string, detail []string, im image) {
		if len(atoms) == 0 {
			atoms = []string{what}
		}
		key := kind + "|" + strings.Join(atoms, "+")
		if seenAtom[key] || len(leaf.Viol) >= maxViol {
			bump(leaf, "violating_images")
			return
		}
		seenAtom[key] = true
		bump(leaf, "violating_images")
		tags := []string{}
		for _, o := range ops {
			if o.SameMs {
				tags = append(tags, "samems")
				break
			}
		}
		if ops[len(ops)-1].Kind == "merge" {
			tags = append(tags, "in-merge") // the crash happens inside Merge
		} else {
			for _, o := range ops {
				if o.Kind == "merge" {
					tags = append(tags, "after-merge")
					break
				}
			}
		}
		sort.Strings(tags)
		leaf.Viol = append(leaf.Viol, Violation{Prop: opt.Prop, Kind: kind, Cfg: cfg, Ops: ops, What: what, Atoms: atoms, Tags: tags,
			Detail: append([]string{"crash image: " + im.desc}, detail...),
			Extra:  map[string]interface{}{"crash_point": im.point, "cut": im.cut, "power_loss": opt.PowerLoss}})
	}

	first := 0
	if opt.OnlyLastOp && len(rc.begin) > 0 {
		first = rc.begin[len(rc.begin)-1]
	}
	fs := NewMemFS(rc.dir)
	for i := 0; i < first; i++ {
		fs.Apply(rc.log[i])
	}
	seenImg := map[string]bool{}
	endsBefore := func(pt int) (k int, inflight bool) {
		for i := range rc.end {
			if rc.end[i] < pt {
				k++
			}
		}
		if k < len(rc.begin) && rc.begin[k] < pt {
			inflight = true
		}
		return
	}
	for pt := first; pt <= len(rc.log); pt++ {
		if pt > first {
			fs.Apply(rc.log[pt-1])
		}
		isPoint := pt == first || pt == len(rc.log) || changesState(rc.log[pt-1].Kind)
		if opt.PowerLoss {
			isPoint = pt == first || pt == len(rc.log) || rc.log[pt-1].Kind != vrt.EvMark
		}
		k, inflight := endsBefore(pt)
		allowed := []*core.State{rc.models[k]}
		if inflight && !rc.results[k].Err && ops[k].IsWrite() {
			allowed = append(allowed, rc.models[k+1])
		}
		prev := "start"
		if pt > 0 {
			prev = evDesc(rc.log[pt-1])
		}
		if isPoint {
			if opt.PowerLoss {
				for _, im := range powerLossImages(rc, pt, leaf) {
					h := fsHash(im.fs)
					if seenImg[h+fmt.Sprint(k, inflight)] {
						continue
					}
					seenImg[h+fmt.Sprint(k, inflight)] = true
					bump(leaf, "images")
					im.desc = fmt.Sprintf("power loss after event %d (%s), %s", pt, prev, im.desc)
					judgeImage(cfg, im, queries, rc.qok, allowed, leaf, add)
				}
			} else {
				h := fsHash(fs)
				if !seenImg[h+fmt.Sprint(k, inflight)] {
					seenImg[h+fmt.Sprint(k, inflight)] = true
					bump(leaf, "images")
					cls := "after(" + rc.log[max0(pt-1)].Kind.String() + " " + extOf(rc.log[max0(pt-1)].Path) + ")"
					if pt == 0 {
						cls = "start"
					}
					if pt == len(rc.log) {
						cls = "end-of-workload"
					}
					judgeImage(cfg, image{fs: fs.Clone(), point: pt, desc: fmt.Sprintf("process crash after event %d (%s)", pt, prev), class: cls}, queries, rc.qok, allowed, leaf, add)
				}
			}
		}
		// torn prefixes of the next write
		if opt.Torn && !opt.PowerLoss && pt < len(rc.log) && rc.log[pt].Kind == vrt.EvWrite && len(rc.log[pt].Data) > 1 {
			ev := rc.log[pt]
			k2, inflight2 := endsBefore(pt + 1)
			allowed2 := []*core.State{rc.models[k2]}
			if inflight2 && !rc.results[k2].Err && ops[k2].IsWrite() {
				allowed2 = append(allowed2, rc.models[k2+1])
			}
			rel, okRel := fs.rel(ev.Path)
			if okRel {
				for _, c := range cutsFor(ev) {
					t := fs.Clone()
					t.WriteAt(rel, ev.Off, ev.Data[:c])
					bump(leaf, "images")
					bump(leaf, "torn_images")
					judgeImage(cfg, image{fs: t, point: pt, cut: c, desc: fmt.Sprintf("process crash inside event %d (%s) after %d of %d bytes", pt+1, evDesc(ev), c, len(ev.Data)), class: "torn(" + extOf(ev.Path) + ")"},
						queries, rc.qok, allowed2, leaf, add)
				}
			}
		}
	}
	if len(leaf.Viol) > 0 {
		leaf.NoExpand = true
	}
	leaf.Nontrivial = leaf.Extra["torn_images"] > 0 || leaf.Extra["images"] > 2
}

func max0(i int) int {
	if i < 0 {
		return 0
	}
	return i
}

// powerLossImages builds the durable images at crash point pt: every file reverts to its content
// at its last sync; every subset of its later writes is re-applied (the last kept write possibly
// torn in the middle); a file never synced is present or absent; a removal is undone or not.
func powerLossImages(rc *recorded, pt int, leaf *Leaf) []image {
	type fileHist struct {
		base    []byte // content at the last sync (nil: never synced)
		synced  bool
		exists  bool // exists in the process view at pt
		later   []vrt.Event
		removed bool   // removed (in the process view) after having existed
		atRem   []byte // content when it was removed
	}
	root := rc.dir
	fsAll := NewMemFS(root)
	hist := map[string]*fileHist{}
	get := func(rel string) *fileHist {
		h := hist[rel]
		if h == nil {
			h = &fileHist{}
			hist[rel] = h
		}
		return h
	}
	for i := 0; i < pt; i++ {
		ev := rc.log[i]
		rel, ok := fsAll.rel(ev.Path)
		if !ok || ev.Kind == vrt.EvMark {
			continue
		}
		switch ev.Kind {
		case vrt.EvSync:
			fsAll.Apply(ev)
			h := get(rel)
			h.base = append([]byte(nil), fsAll.Files[rel]...)
			h.synced = true
			h.later = nil
		case vrt.EvCreate, vrt.EvTruncate:
			fsAll.Apply(ev)
			h := get(rel)
			h.exists = true
			h.removed = false
			// creation and sizing are treated as part of the directory entry: a present file has its size
			if !h.synced {
				h.base = nil
			} else if int64(len(h.base)) < int64(len(fsAll.Files[rel])) {
				h.base = append(h.base, make([]byte, len(fsAll.Files[rel])-len(h.base))...)
			}
		case vrt.EvWrite:
			fsAll.Apply(ev)
			h := get(rel)
			h.later = append(h.later, ev)
		case vrt.EvRemove:
			h := get(rel)
			if b, ok := fsAll.Files[rel]; ok {
				h.removed = true
				h.exists = false
				h.atRem = append([]byte(nil), b...)
				if h.synced {
					h.atRem = append([]byte(nil), h.base...)
				}
			}
			fsAll.Apply(ev)
		default:
			fsAll.Apply(ev)
		}
	}
	// per-file alternatives
	type alt struct {
		present bool
		content []byte
		desc    string
	}
	var files []string
	for f := range hist {
		files = append(files, f)
	}
	sort.Strings(files)
	alts := map[string][]alt{}
	capped := false
	for _, f := range files {
		h := hist[f]
		var as []alt
		if h.removed {
			as = append(as, alt{present: false, desc: ""})
			as = append(as, alt{present: true, content: h.atRem, desc: f + ": removal undone"})
			alts[f] = as
			continue
		}
		if !h.exists {
			continue
		}
		size := len(fsAll.Files[f])
		base := h.base
		if base == nil {
			base = make([]byte, size)
		}
		if len(base) < size {
			base = append(append([]byte(nil), base...), make([]byte, size-len(base))...)
		}
		n := len(h.later)
		subsets := [][]int{}
		if n <= 4 {
			for mask := 0; mask < 1<<uint(n); mask++ {
				var s []int
				for i := 0; i < n; i++ {
					if mask&(1<<uint(i)) != 0 {
						s = append(s, i)
					}
				}
				subsets = append(subsets, s)
			}
		} else {
			capped = true
			for i := 0; i <= n; i++ { // prefixes
				var s []int
				for j := 0; j < i; j++ {
					s = append(s, j)
				}
				subsets = append(subsets, s)
			}
			for i := 0; i < n; i++ {
				subsets = append(subsets, []int{i})
			}
		}
		for _, s := range subsets {
			c := append([]byte(nil), base...)
			for _, i := range s {
				ev := h.later[i]
				if need := int(ev.Off) + len(ev.Data); need > len(c) {
					c = append(c, make([]byte, need-len(c))...)
				}
				copy(c[ev.Off:], ev.Data)
			}
			d := ""
			if len(s) < n {
				d = fmt.Sprintf("%s: %d of %d unsynced writes kept %v", f, len(s), n, s)
			}
			as = append(as, alt{present: true, content: c, desc: d})
			if len(s) > 0 && len(s) <= n { // last kept write torn in the middle
				ev := h.later[s[len(s)-1]]
				if len(ev.Data) > 1 {
					t := append([]byte(nil), base...)
					for _, i := range s[:len(s)-1] {
						e2 := h.later[i]
						copy(t[e2.Off:], e2.Data)
					}
					half := len(ev.Data) / 2
					if need := int(ev.Off) + half; need > len(t) {
						t = append(t, make([]byte, need-len(t))...)
					}
					copy(t[ev.Off:], ev.Data[:half])
					as = append(as, alt{present: true, content: t, desc: fmt.Sprintf("%s: unsynced writes %v kept, the last one torn at %d bytes", f, s, half)})
				}
			}
		}
		if !h.synced {
			as = append(as, alt{present: false, desc: f + ": never synced, absent"})
		}
		alts[f] = as
	}
	if capped {
		bump(leaf, "powerloss_subsets_capped")
	}
	// cartesian product, capped
	total := 1
	for _, f := range files {
		if len(alts[f]) > 0 {
			total *= len(alts[f])
			if total > 256 {
				break
			}
		}
	}
	var out []image
	build := func(choice map[string]alt) image {
		fs := NewMemFS(root)
		for d := range fsAll.Dirs {
			fs.Dirs[d] = true
		}
		var descs []string
		for f, a := range choice {
			if a.present {
				fs.Files[f] = a.content
			}
			if a.desc != "" {
				descs = append(descs, a.desc)
			}
		}
		sort.Strings(descs)
		d := strings.Join(descs, "; ")
		if d == "" {
			d = "all unsynced writes kept"
		}
		return image{fs: fs, point: pt, desc: d, class: "powerloss"}
	}
	if total <= 256 {
		choice := map[string]alt{}
		var rec func(i int)
		rec = func(i int) {
			if i == len(files) {
				c := map[string]alt{}
				for k, v := range choice {
					c[k] = v
				}
				out = append(out, build(c))
				return
			}
			f := files[i]
			if len(alts[f]) == 0 {
				rec(i + 1)
				return
			}
			for _, a := range alts[f] {
				choice[f] = a
				rec(i + 1)
			}
			delete(choice, f)
		}
		rec(0)
	} else {
		bump(leaf, "powerloss_product_capped")
		// all-first (everything kept), all-last (everything dropped), and one file varied at a time
		def := map[string]alt{}
		for _, f := range files {
			if len(alts[f]) > 0 {
				def[f] = alts[f][len(alts[f])-1]
				for _, a := range alts[f] {
					if a.desc == "" {
						def[f] = a
					}
				}
			}
		}
		out = append(out, build(def))
		for _, f := range files {
			for _, a := range alts[f] {
				c := map[string]alt{}
				for k, v := range def {
					c[k] = v
				}
				c[f] = a
				out = append(out, build(c))
			}
		}
	}
	return out
}

// probeAfterRecovery is switched on by profiles whose property covers what happens after the
// recovery (C10, C16); power-loss images keep the cheaper idempotence check.
var probeAfterRecovery = false

// probeBothOrders runs the second probe order on every image, not only on torn ones (thorough).
var probeBothOrders = os.Getenv("VERIF_TIER_INTERNAL") == "thorough"

// SetProbeAfterRecovery selects the post-recovery probe for the current leaf.
func SetProbeAfterRecovery(on bool) { probeAfterRecovery = on }

func filterBad(bad []core.Mismatch, queries []core.Call, qok []bool) []core.Mismatch {
	var out []core.Mismatch
	for _, m := range bad {
		keep := true
		for qi := range queries {
			if queries[qi].String() == m.Call.String() && !qok[qi] {
				keep = false
			}
		}
		if keep {
			out = append(out, m)
		}
	}
	return out
}

// probeWrites commits two further transactions on a recovered database and checks that the model
// (recovered state + probes) holds before and after reopen.  It returns nil or
// {kind, what, details...}.
func probeWrites(cfg core.Cfg, in *core.Inst, dir string, queries []core.Call, qok []bool, st *core.State, leaf *Leaf, order int) []string {
	in.Model = st.Clone()
	bump(leaf, "post_recovery_probes")
	big := int(cfg.Seg) - 60
	if big < 1 {
		big = 1
	}
	// the large record first: when it does not fit behind the recovered write offset the file is
	// rotated and whatever the crash left at its tail stays behind in a file that is no longer the
	// newest; then a small one
	probes := []core.Op{
		{Kind: "update", Calls: []core.Call{{F: "Put", B: "kv", K: "zzq", Big: big}}},
		{Kind: "reopen"},
		{Kind: "update", Calls: []core.Call{{F: "Put", B: "kv", K: "zzp", V: "p1"}}},
		{Kind: "reopen"},
	}
	if order == 1 {
		probes = []core.Op{
			{Kind: "update", Calls: []core.Call{{F: "Put", B: "kv", K: "z", V: ""}}},
			{Kind: "reopen"},
			{Kind: "update", Calls: []core.Call{{F: "Put", B: "kv", K: "zzq", Big: big}}},
			{Kind: "reopen"},
		}
	}
	for pi, op := range probes {
		r := in.Apply(op)
		if r.Panic != "" {
			return []string{"post-recovery-panic", "probe", fmt.Sprintf("probe step %d %s panicked: %s", pi+1, op, r.Panic)}
		}
		if r.Err {
			kind := "post-recovery-write-failed"
			if op.Kind == "reopen" {
				kind = "post-recovery-open-error"
			}
			return []string{kind, ErrClass(r.Msg), fmt.Sprintf("probe step %d %s failed: %s", pi+1, op, r.Msg)}
		}
		obs, err := in.Observe(queries)
		if err != nil {
			return []string{"post-recovery-obs-failed", "View", err.Error()}
		}
		leaf.Evals += len(obs)
		if bad := filterBad(core.CheckObs(in.Model, queries, obs), queries, qok); len(bad) > 0 {
			det := []string{fmt.Sprintf("after probe step %d (%s) on the recovered database:", pi+1, op)}
			for _, m := range bad {
				det = append(det, m.String())
			}
			return append([]string{"post-recovery-state", bad[0].Atom()}, det...)
		}
	}
	in.CloseOnly()
	return nil
}
