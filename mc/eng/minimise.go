package eng

import (
	"verif/mc/core"
)

func sameFailure(lf Leaf, v Violation) bool {
	for _, w := range lf.Viol {
		if w.Prop == v.Prop && w.Kind == v.Kind && w.What == v.What {
			return true
		}
	}
	return false
}

// origProp: the collector renames sub-oracle properties to the checked property; the profile
// reports them under their own name, so compare on kind and what only when the names differ.
func sameFailureLoose(lf Leaf, v Violation) *Violation {
	for i, w := range lf.Viol {
		if w.Kind == v.Kind && w.What == v.What {
			return &lf.Viol[i]
		}
	}
	return nil
}

// Minimise shrinks a violating history greedily (drop ops, drop calls of the last op) while the
// same failure (kind, what) persists.
func Minimise(p *Profile, v Violation) Violation {
	ops := append([]core.Op(nil), v.Ops...)
	try := func(cand []core.Op) *Violation {
		if len(cand) == 0 {
			return nil
		}
		lf := RunOps(p, v.Cfg, cand)
		return sameFailureLoose(lf, v)
	}
	best := v
	changed := true
	for changed {
		changed = false
		for i := 0; i < len(ops)-1; i++ {
			cand := append(append([]core.Op(nil), ops[:i]...), ops[i+1:]...)
			if w := try(cand); w != nil {
				ops = cand
				best.Ops, best.Detail, best.Atoms, best.Tags = cand, w.Detail, w.Atoms, w.Tags
				changed = true
				break
			}
		}
	}
	// shrink multi-call bodies (any op)
	for oi := range ops {
		for len(ops[oi].Calls) > 1 {
			shrunk := false
			for ci := range ops[oi].Calls {
				cand := append([]core.Op(nil), ops...)
				o := cand[oi]
				o.Calls = append(append([]core.Call(nil), o.Calls[:ci]...), o.Calls[ci+1:]...)
				if o.ErrAfter > len(o.Calls) {
					o.ErrAfter = len(o.Calls)
				}
				cand[oi] = o
				if w := try(cand); w != nil {
					ops = cand
					best.Ops, best.Detail, best.Atoms, best.Tags = cand, w.Detail, w.Atoms, w.Tags
					shrunk = true
					break
				}
			}
			if !shrunk {
				break
			}
		}
	}
	// drop deviations
	for oi := range ops {
		if ops[oi].SameMs {
			cand := append([]core.Op(nil), ops...)
			cand[oi].SameMs = false
			if w := try(cand); w != nil {
				ops = cand
				best.Ops, best.Detail, best.Atoms, best.Tags = cand, w.Detail, w.Atoms, w.Tags
			}
		}
	}
	return best
}
