package eng

import (
	"fmt"
	"sort"

	"github.com/xujiajun/nutsdb/verifshim/vrt"

	"verif/mc/core"
)

// FaultLeaf is the fault-sequence part of E2: the last op of a history is re-executed once per
// injectable file mutation of its recorded run, with that mutation failing (for writes also
// after a prefix of the bytes was applied).  Oracle (C12): the failing transaction leaves every
// read unchanged, in the process and after reopen; for an injected sync error after a complete
// write only all-or-nothing is required.
func FaultLeaf(p *Profile, cfg core.Cfg, ops []core.Op, leaf *Leaf, prop string) {
	queries := p.Obs(cfg)
	// a replayed counterexample carries the fault it was found with: all faults are re-enumerated
	ops = append([]core.Op(nil), ops...)
	for i := range ops {
		ops[i].Fault = nil
	}
	rc := record(cfg, ops, queries)
	if rc.broken != "" {
		leaf.NoExpand = true
		leaf.Viol = append(leaf.Viol, Violation{Prop: "SETUP", Kind: "workload-broken", Cfg: cfg, Ops: ops, What: "record", Atoms: []string{"record"}, Detail: []string{rc.broken}})
		return
	}
	leaf.Kappa = rc.kappa
	leaf.ModelHash = core.Hash(rc.models[len(rc.models)-1].Canon())
	last := len(ops) - 1
	if !ops[last].IsWrite() {
		return
	}
	// injectable events of the last op
	type inj struct {
		idx  int
		kind vrt.EvKind
		ev   vrt.Event
	}
	var menu []inj
	for i := rc.begin[last]; i < rc.end[last]; i++ {
		if ev := rc.log[i]; ev.Inj >= 0 {
			menu = append(menu, inj{ev.Inj, ev.Kind, ev})
		}
	}
	sort.Slice(menu, func(i, j int) bool { return menu[i].idx < menu[j].idx })
	bump(leaf, "workloads")
	seenAtom := map[string]bool{}
	add := func(kind string, bad []core.Mismatch, what string, f core.Fault, evd string, detail ...string) {
		atoms := []string{what}
		if len(bad) > 0 {
			atoms = nil
			seen := map[string]bool{}
			for _, m := range bad {
				a := m.Atom() + "@" + what
				if !seen[a] {
					seen[a] = true
					atoms = append(atoms, a)
				}
				detail = append(detail, m.String())
			}
			sort.Strings(atoms)
		}
		key := kind + fmt.Sprint(atoms)
		bump(leaf, "violating_faults")
		if seenAtom[key] || len(leaf.Viol) >= 6 {
			return
		}
		seenAtom[key] = true
		fo := append([]core.Op(nil), ops...)
		lo := fo[last]
		lo.Fault = &core.Fault{At: f.At, Cut: f.Cut}
		fo[last] = lo
		leaf.Viol = append(leaf.Viol, Violation{Prop: prop, Kind: kind, Cfg: cfg, Ops: fo, What: atoms[0], Atoms: atoms, Tags: []string{"fault"},
			Detail: append([]string{"injected fault: " + evd}, detail...), Extra: map[string]interface{}{"fault_at": f.At, "fault_cut": f.Cut}})
	}
	for _, it := range menu {
		cuts := []int{0}
		if it.kind == vrt.EvWrite && len(it.ev.Data) > 1 {
			for _, c := range cutsFor(it.ev) {
				cuts = append(cuts, c)
			}
			if len(cuts) > 6 { // 0, 1, header end, payload middle, last byte
				cuts = []int{0, 1, cuts[len(cuts)/2], cuts[len(cuts)-1]}
			}
		}
		for _, cut := range cuts {
			for variant := 0; variant < 4; variant++ {
				bump(leaf, "faults")
				f := core.Fault{At: it.idx, Cut: cut}
				evd := fmt.Sprintf("%s fails", evDesc(it.ev))
				if cut > 0 {
					evd += fmt.Sprintf(" after %d bytes were written", cut)
				}
				cls := it.kind.String() + " " + extOf(it.ev.Path)
				in := core.OpenInst(cfg)
				okPrefix := true
				for _, op := range ops[:last] {
					in.Apply(op)
					if in.Poisoned != "" || in.DB == nil {
						okPrefix = false
						break
					}
				}
				if !okPrefix {
					in.Discard()
					continue
				}
				prev, _ := in.Observe(queries)
				modelPrev := in.Model.Clone()
				op := ops[last]
				op.Fault = &f
				r := in.Apply(op)
				if r.Panic != "" {
					add("panic-on-fault", nil, "panic@"+cls, f, evd, r.Panic)
					in.Discard()
					continue
				}
				if !r.Faulted {
					// the recorded position was not reached (the code took another path): not judged
					bump(leaf, "faults_not_reached")
					in.Discard()
					continue
				}
				obs, oerr := in.Observe(queries)
				leaf.Evals += len(obs)
				if oerr != nil {
					add("obs-failed-after-fault", nil, "View@"+cls, f, evd, oerr.Error())
					in.Discard()
					continue
				}
				dPrev := core.DiffObs(queries, prev, obs)
				// the model after a successful commit of the same op (for the all-or-nothing case)
				committedOK := func(o []core.Res) bool {
					return len(core.CheckObs(in.Model, queries, o)) == 0 && in.Model.Canon() != modelPrev.Canon()
				}
				isSync := it.kind == vrt.EvSync
				choice := "none"
				switch {
				case !r.Err:
					// the call swallowed the error: then the transaction must be fully there
					if len(core.CheckObs(in.Model, queries, obs)) > 0 {
						add("fault-swallowed", core.CheckObs(in.Model, queries, obs), "swallowed@"+cls, f, evd, "the transaction returned nil although a file operation failed, and its effects are not fully visible")
						in.Discard()
						continue
					}
					choice = "all"
				case len(dPrev) == 0:
					choice = "none"
				case isSync && committedOK(obs):
					choice = "all" // never reached: a failed op does not advance in.Model
				default:
					add("effect-in-process", dPrev, cls, f, evd, "the failed transaction changed reads in the running process")
					in.Discard()
					continue
				}
				// later transactions of the same process commit behind the failed one: they must be
				// visible, leave everything else unchanged and survive the reopen (variant 1: a small
				// record; variant 2: one that forces a rotation, then a small one)
				if variant > 0 {
					big := int(cfg.Seg) - 60
					if big < 1 {
						big = 1
					}
					follow := []core.Op{{Kind: "update", Calls: []core.Call{{F: "Put", B: "kv", K: "zzp", V: "p1"}}}}
					if variant == 2 {
						follow = []core.Op{{Kind: "update", Calls: []core.Call{{F: "Put", B: "kv", K: "zzq", Big: big}}}, follow[0]}
					}
					bump(leaf, "faults_with_later_commits")
					bad := false
					for _, fop := range follow {
						fr := in.Apply(fop)
						if fr.Panic != "" {
							add("panic-after-fault", nil, "panic-later-commit@"+cls, f, evd, fop.String()+" after the failed transaction panicked: "+fr.Panic)
							bad = true
							break
						}
						if fr.Err {
							add("later-commit-failed", nil, ErrClass(fr.Msg)+"@"+cls, f, evd, fop.String()+" after the failed transaction failed: "+fr.Msg)
							bad = true
							break
						}
					}
					if bad {
						in.Discard()
						continue
					}
					obsP, perr := in.Observe(queries)
					leaf.Evals += len(obsP)
					if perr != nil {
						add("obs-failed-after-fault", nil, "View-later@"+cls, f, evd, perr.Error())
						in.Discard()
						continue
					}
					if d := core.CheckObs(in.Model, queries, obsP); len(d) > 0 {
						add("effect-on-later-commit", d, cls, f, evd, "after the failed transaction, later successful transactions do not produce the expected reads in the running process")
						in.Discard()
						continue
					}
					obs, prev = obsP, obsP
				}
				// after reopen
				if err := in.CloseOnly(); err != nil {
					add("close-failed-after-fault", nil, "Close@"+cls, f, evd, err.Error())
					in.Discard()
					continue
				}
				in2 := core.OpenDir(cfg, in.Dir, in.Model)
				if in2.OpenErr != nil {
					add("open-error-after-fault", nil, ErrClass(in2.OpenErr.Error())+"@"+cls, f, evd, in2.OpenErr.Error())
					in.Discard()
					continue
				}
				obs2, _ := in2.Observe(queries)
				in2.CloseOnly()
				leaf.Evals += len(obs2)
				ref := prev
				if choice == "all" {
					ref = obs
				}
				if d := core.DiffObs(queries, ref, obs2); len(d) > 0 {
					// sync failed after the complete write: fully visible after reopen is allowed
					if isSync && r.Err {
						m2 := in.Model.Clone()
						w := m2.Clone()
						okAll := true
						for ci, c := range ops[last].Calls {
							if ci < len(r.Calls) {
								w.Eval(c, core.Res{})
							}
						}
						if len(core.CheckObs(w, queries, obs2)) > 0 {
							okAll = false
						}
						if okAll {
							bump(leaf, "sync_fault_all_after_reopen")
							in.Discard()
							continue
						}
					}
					what := "the failed transaction changed reads after close+reopen"
					if variant > 0 {
						what = "after the failed transaction and later successful commits, close+reopen does not show the state the process showed"
					}
					add("effect-after-reopen", d, cls, f, evd, what)
				}
				in.Discard()
			}
		}
	}
	leaf.Nontrivial = leaf.Extra["faults"] > 0
	if len(leaf.Viol) > 0 {
		leaf.NoExpand = true
	}
}
