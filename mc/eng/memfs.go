package eng

import (
	"bytes"
	"io/ioutil"
	"os"
	"path/filepath"
	"sort"
	"strings"

	"github.com/xujiajun/nutsdb/verifshim/vrt"
)

// MemFS is the file system state rebuilt from a prefix of the event log.
type MemFS struct {
	Root  string // absolute path all event paths are relative to
	Dirs  map[string]bool
	Files map[string][]byte
}

// NewMemFS returns an empty file system rooted at root.
func NewMemFS(root string) *MemFS {
	return &MemFS{Root: root, Dirs: map[string]bool{}, Files: map[string][]byte{}}
}

// Clone deep-copies the state.
func (m *MemFS) Clone() *MemFS {
	c := NewMemFS(m.Root)
	for d := range m.Dirs {
		c.Dirs[d] = true
	}
	for f, b := range m.Files {
		c.Files[f] = append([]byte(nil), b...)
	}
	return c
}

func (m *MemFS) rel(p string) (string, bool) {
	if p == m.Root {
		return ".", true
	}
	if strings.HasPrefix(p, m.Root+"/") {
		return p[len(m.Root)+1:], true
	}
	return "", false
}

// Apply applies one event; events outside the root are ignored.
func (m *MemFS) Apply(ev vrt.Event) {
	p, ok := m.rel(ev.Path)
	if !ok {
		return
	}
	switch ev.Kind {
	case vrt.EvMkdir:
		// MkdirAll semantics: all parents
		for d := p; d != "." && d != "/" && d != ""; d = filepath.Dir(d) {
			m.Dirs[d] = true
		}
		m.Dirs["."] = true
	case vrt.EvCreate:
		if _, ok := m.Files[p]; !ok {
			m.Files[p] = []byte{}
		}
	case vrt.EvTruncate:
		b := m.Files[p]
		if int64(len(b)) > ev.Size {
			b = b[:ev.Size]
		} else {
			b = append(b, make([]byte, int(ev.Size)-len(b))...)
		}
		m.Files[p] = b
	case vrt.EvWrite:
		m.WriteAt(p, ev.Off, ev.Data)
	case vrt.EvRemove:
		delete(m.Files, p)
		delete(m.Dirs, p)
	case vrt.EvRemoveAll:
		for f := range m.Files {
			if f == p || strings.HasPrefix(f, p+"/") {
				delete(m.Files, f)
			}
		}
		for d := range m.Dirs {
			if d == p || strings.HasPrefix(d, p+"/") {
				delete(m.Dirs, d)
			}
		}
	case vrt.EvRename:
		if q, ok := m.rel(ev.Path2); ok {
			if b, ok := m.Files[p]; ok {
				m.Files[q] = b
				delete(m.Files, p)
			}
		}
	}
}

// WriteAt writes data into a file image.
func (m *MemFS) WriteAt(p string, off int64, data []byte) {
	b, ok := m.Files[p]
	if !ok {
		return // write to a file that was removed: nothing visible
	}
	if need := int(off) + len(data); need > len(b) {
		b = append(b, make([]byte, need-len(b))...)
	}
	copy(b[off:], data)
	m.Files[p] = b
}

// Materialise writes the state into dir (which must not exist).
func (m *MemFS) Materialise(dir string) error {
	if !m.Dirs["."] && len(m.Files) == 0 && len(m.Dirs) == 0 {
		return nil // the directory itself does not exist yet
	}
	if err := os.MkdirAll(dir, 0755); err != nil {
		return err
	}
	var ds []string
	for d := range m.Dirs {
		ds = append(ds, d)
	}
	sort.Strings(ds)
	for _, d := range ds {
		if err := os.MkdirAll(filepath.Join(dir, d), 0755); err != nil {
			return err
		}
	}
	for f, b := range m.Files {
		os.MkdirAll(filepath.Dir(filepath.Join(dir, f)), 0755)
		if err := ioutil.WriteFile(filepath.Join(dir, f), b, 0644); err != nil {
			return err
		}
	}
	return nil
}

// DiffDir compares the state with a real directory; it returns the differing paths.
func (m *MemFS) DiffDir(dir string) []string {
	var diff []string
	seen := map[string]bool{}
	filepath.Walk(dir, func(p string, info os.FileInfo, err error) error {
		if err != nil || info.IsDir() {
			return nil
		}
		rel, _ := filepath.Rel(dir, p)
		seen[rel] = true
		b, _ := ioutil.ReadFile(p)
		if mb, ok := m.Files[rel]; !ok {
			diff = append(diff, rel+": on disk but not in the log")
		} else if !bytes.Equal(b, mb) {
			diff = append(diff, rel+": content differs")
		}
		return nil
	})
	for f := range m.Files {
		if !seen[f] {
			diff = append(diff, f+": in the log but not on disk")
		}
	}
	sort.Strings(diff)
	return diff
}
