package eng

import (
	"fmt"
	"sort"
	"strings"
	"sync"
	"time"

	"github.com/xujiajun/nutsdb/verifshim/vrt"
)

// E3: a cooperative scheduler.  Harness threads are real goroutines but exactly one runs at a
// time; control changes hands only at scheduling points (every call into a shim whose class is
// selected, every lock operation).  Lock availability is modelled by the scheduler, so the real
// lock call that follows an Acquire never blocks.

type lockState struct {
	writer  bool
	readers int
}

type sthread struct {
	id        int
	name      string
	fn        func()
	wake      chan struct{}
	done      bool
	started   bool
	want      interface{}
	wantWrite bool
	panicked  string
}

// SPoint is one recorded scheduling decision.
type SPoint struct {
	Thread     int    // thread running when the point was reached (-1: none)
	Kind       string // class of the point
	Enabled    []int  // enabled threads in canonical order
	CurEnabled bool   // the running thread could have continued
	Choice     int
}

// Sched is one controlled execution.
type Sched struct {
	mu       sync.Mutex
	threads  []*sthread
	cur      int
	locks    map[interface{}]*lockState
	prefix   []int
	Trace    []SPoint
	Classes  map[string]bool // point classes that are scheduling points (locks always are)
	Deadlock string
	Diverged string
	finished chan struct{}
	Step     int64 // logical clock: number of points passed
	MaxSteps int
	Livelock bool
}

// NewSched prepares an execution that replays prefix and then always takes choice 0.
func NewSched(prefix []int, classes []string) *Sched {
	s := &Sched{cur: -1, locks: map[interface{}]*lockState{}, prefix: prefix, Classes: map[string]bool{}, finished: make(chan struct{}, 1), MaxSteps: 20000}
	for _, c := range classes {
		s.Classes[c] = true
	}
	return s
}

// Go registers a harness thread.
func (s *Sched) Go(name string, fn func()) {
	s.threads = append(s.threads, &sthread{id: len(s.threads), name: name, fn: fn, wake: make(chan struct{}, 1)})
}

func (s *Sched) available(m interface{}, write bool) bool {
	l := s.locks[m]
	if l == nil {
		return true
	}
	if write {
		return !l.writer && l.readers == 0
	}
	return !l.writer
}

// enabled returns the enabled threads: the running one first if enabled, then ascending ids.
func (s *Sched) enabled() []int {
	var en []int
	ok := func(t *sthread) bool {
		return !t.done && (t.want == nil || s.available(t.want, t.wantWrite))
	}
	if s.cur >= 0 && ok(s.threads[s.cur]) {
		en = append(en, s.cur)
	}
	for _, t := range s.threads {
		if t.id != s.cur && ok(t) {
			en = append(en, t.id)
		}
	}
	return en
}

// decide records a point and returns the thread to run next (-1: none enabled).
func (s *Sched) decide(kind string) int {
	en := s.enabled()
	s.Step++
	if len(en) == 0 {
		return -1
	}
	pick := 0
	pos := len(s.Trace)
	if pos < len(s.prefix) {
		pick = s.prefix[pos]
		if pick >= len(en) {
			s.Diverged = fmt.Sprintf("replay diverged at point %d: choice %d of %d enabled", pos, pick, len(en))
			pick = 0
		}
	}
	s.Trace = append(s.Trace, SPoint{Thread: s.cur, Kind: kind, Enabled: en, CurEnabled: s.cur >= 0 && en[0] == s.cur, Choice: pick})
	return en[pick]
}

// switchTo hands control to thread next and parks the calling thread t (nil: the caller ends).
func (s *Sched) switchTo(next int, t *sthread) {
	if t != nil && next == t.id {
		return
	}
	s.cur = next
	nt := s.threads[next]
	if !nt.started {
		nt.started = true
		go s.runThread(nt)
	} else {
		nt.wake <- struct{}{}
	}
	if t != nil {
		<-t.wake
	}
}

func (s *Sched) runThread(t *sthread) {
	defer func() {
		if r := recover(); r != nil {
			t.panicked = fmt.Sprint(r)
		}
		t.done = true
		t.want = nil
		next := s.decide("exit")
		if next < 0 {
			s.finish()
			return
		}
		s.switchTo(next, nil)
	}()
	t.fn()
}

func (s *Sched) finish() {
	for _, t := range s.threads {
		if !t.done {
			var blocked []string
			for _, u := range s.threads {
				if !u.done {
					blocked = append(blocked, u.name)
				}
			}
			s.Deadlock = "no enabled thread; blocked: " + strings.Join(blocked, ",")
			break
		}
	}
	select {
	case s.finished <- struct{}{}:
	default:
	}
}

func (s *Sched) yield(kind string) {
	t := s.threads[s.cur]
	if len(s.Trace) > s.MaxSteps {
		s.Livelock = true
		s.finish()
		select {} // park forever; the execution is abandoned
	}
	next := s.decide(kind)
	if next < 0 {
		s.finish()
		<-t.wake // deadlock: never woken
		return
	}
	s.switchTo(next, t)
}

// Point implements vrt.Scheduler.
func (s *Sched) Point(kind, detail string) {
	if s.cur < 0 || !s.Classes[kind] {
		return
	}
	s.yield(kind)
}

// Yield is an explicit scheduling point of a harness body.
func (s *Sched) Yield() { s.yield("yield") }

// Acquire implements vrt.Scheduler.
func (s *Sched) Acquire(m interface{}, write bool) {
	if s.cur < 0 {
		return
	}
	t := s.threads[s.cur]
	t.want, t.wantWrite = m, write
	s.yield("lock")
	// chosen: the lock is free in the model
	t.want = nil
	l := s.locks[m]
	if l == nil {
		l = &lockState{}
		s.locks[m] = l
	}
	if write {
		l.writer = true
	} else {
		l.readers++
	}
}

// Release implements vrt.Scheduler.
func (s *Sched) Release(m interface{}, write bool) {
	if s.cur < 0 {
		return
	}
	if l := s.locks[m]; l != nil {
		if write {
			l.writer = false
		} else if l.readers > 0 {
			l.readers--
		}
	}
	s.yield("unlock")
}

// Run executes the registered threads to completion (or deadlock); it returns false on a hang.
func (s *Sched) Run() bool {
	vrt.Sched = s
	defer func() { vrt.Sched = nil }()
	next := s.decide("start")
	if next < 0 {
		return true
	}
	s.switchTo(next, nil)
	select {
	case <-s.finished:
		return true
	case <-time.After(30 * time.Second):
		return false
	}
}

// Panics returns the panics of the threads.
func (s *Sched) Panics() []string {
	var out []string
	for _, t := range s.threads {
		if t.panicked != "" {
			out = append(out, t.name+": "+t.panicked)
		}
	}
	return out
}

// Choices returns the decisions of the execution.
func (s *Sched) Choices() []int {
	out := make([]int, len(s.Trace))
	for i, p := range s.Trace {
		out[i] = p.Choice
	}
	return out
}

// TraceHash identifies the execution (threads and point kinds in order).
func (s *Sched) TraceHash() string {
	var sb strings.Builder
	for _, p := range s.Trace {
		fmt.Fprintf(&sb, "%d%s>%d;", p.Thread, p.Kind, p.Enabled[p.Choice])
	}
	return sb.String()
}

// preemptionsBefore counts the preemptions among the first i decisions.
func preemptionsBefore(tr []SPoint, i int) int {
	n := 0
	for _, p := range tr[:i] {
		if p.CurEnabled && p.Choice != 0 {
			n++
		}
	}
	return n
}

// SchedStats accumulates coverage of a schedule exploration.
type SchedStats struct {
	Schedules       int
	WithPreemption  int
	MaxPoints       int
	Points          int
	DistinctTraces  map[string]bool
	Outcomes        map[string]bool
	BoundCompleted  int
	Capped          bool
	DeterminismOK   bool
	PointKinds      map[string]int
}

// ExploreSchedules enumerates every schedule of a harness with at most bound preemptions.
// run executes one schedule (given the choice prefix) and returns the scheduler and an outcome
// label; it must create fresh state every time.  check judges one execution.
func ExploreSchedules(bound int, maxSchedules int, deadline func() bool, run func(prefix []int) (*Sched, string), check func(s *Sched, outcome string) bool) *SchedStats {
	st := &SchedStats{DistinctTraces: map[string]bool{}, Outcomes: map[string]bool{}, PointKinds: map[string]int{}, DeterminismOK: true}
	// determinism proof obligation: the default schedule twice
	a, oa := run(nil)
	b, ob := run(nil)
	_ = ob
	if a.TraceHash() != b.TraceHash() {
		st.DeterminismOK = false
		return st
	}
	for cb := 0; cb <= bound; cb++ {
		// iterative bounding: all schedules with exactly <= cb preemptions (re-enumerated per level
		// only for the new ones: a schedule is generated at the level equal to its preemption count)
		var rec func(prefix []int, used int) bool
		rec = func(prefix []int, used int) bool {
			if st.Schedules >= maxSchedules || deadline() {
				st.Capped = true
				return false
			}
			var s *Sched
			var outcome string
			if len(prefix) == 0 && cb == 0 {
				s, outcome = a, oa
			} else {
				s, outcome = run(prefix)
			}
			if s.Diverged != "" {
				st.DeterminismOK = false
				return false
			}
			if used == cb {
				st.Schedules++
				if used > 0 {
					st.WithPreemption++
				}
				st.Points += len(s.Trace)
				if len(s.Trace) > st.MaxPoints {
					st.MaxPoints = len(s.Trace)
				}
				st.DistinctTraces[s.TraceHash()] = true
				st.Outcomes[outcome] = true
				for _, p := range s.Trace {
					st.PointKinds[p.Kind]++
				}
				if !check(s, outcome) {
					// keep exploring: every violating schedule is classified by the caller
				}
			}
			tr := s.Trace
			for i := len(prefix); i < len(tr); i++ {
				p := tr[i]
				for alt := 1; alt < len(p.Enabled); alt++ {
					cost := used
					if p.CurEnabled {
						cost++
					}
					if cost > cb {
						continue
					}
					np := append(append([]int(nil), choicesOf(tr[:i])...), alt)
					if !rec(np, cost) {
						return false
					}
				}
			}
			return true
		}
		if !rec(nil, 0) {
			break
		}
		st.BoundCompleted = cb
	}
	return st
}

func choicesOf(tr []SPoint) []int {
	out := make([]int, len(tr))
	for i, p := range tr {
		out[i] = p.Choice
	}
	return out
}

// KindsSorted renders the point-kind histogram.
func (st *SchedStats) KindsSorted() []string {
	var ks []string
	for k, v := range st.PointKinds {
		ks = append(ks, fmt.Sprintf("%s=%d", k, v))
	}
	sort.Strings(ks)
	return ks
}
