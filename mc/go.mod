module verif/mc

go 1.13

require (
	github.com/anishathalye/porcupine v1.3.0
	github.com/xujiajun/nutsdb v0.0.0
)

replace github.com/xujiajun/nutsdb => /repo

replace golang.org/x/sys v0.0.0-20181221143128-b4a75ba826a6 => github.com/golang/sys v0.0.0-20181221143128-b4a75ba826a6
