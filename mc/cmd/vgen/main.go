// vgen generates the build overlay that binds the verification shims to the current working tree
// of the nutsdb repository: instrumented copies of every non-test source file (import paths of
// os/sync/time/math/rand/io/ioutil/mmap-go replaced by the shim packages, nothing else touched),
// the virtual shim packages, the verif-tagged export file and the instrumented dependency files.
//
//	vgen -repo /repo -shim /verif/mc/shim -out /verif/.build/x  ->  /verif/.build/x/overlay.json
package main

import (
	"encoding/json"
	"flag"
	"fmt"
	"go/parser"
	"go/token"
	"io/ioutil"
	"os"
	"os/exec"
	"path/filepath"
	"sort"
	"strconv"
	"strings"
)

const shimBase = "github.com/xujiajun/nutsdb/verifshim/"

var rewrite = map[string][2]string{ // import path -> {default name, shim package}
	"os":                         {"os", "vos"},
	"sync":                       {"sync", "vsync"},
	"time":                       {"time", "vtime"},
	"math/rand":                  {"rand", "vrand"},
	"io/ioutil":                  {"ioutil", "vioutil"},
	"github.com/xujiajun/mmap-go": {"mmap", "vmmap"},
}

func die(format string, a ...interface{}) {
	fmt.Fprintf(os.Stderr, "vgen: "+format+"\n", a...)
	os.Exit(2)
}

func instrument(src []byte, name string) ([]byte, bool) {
	fset := token.NewFileSet()
	f, err := parser.ParseFile(fset, name, src, parser.ImportsOnly)
	if err != nil {
		die("parse %s: %v", name, err)
	}
	type edit struct {
		lo, hi int
		text   string
	}
	var edits []edit
	for _, im := range f.Imports {
		p, _ := strconv.Unquote(im.Path.Value)
		rw, ok := rewrite[p]
		if !ok {
			continue
		}
		lo := fset.Position(im.Path.Pos()).Offset
		hi := fset.Position(im.Path.End()).Offset
		text := strconv.Quote(shimBase + rw[1])
		if im.Name == nil {
			text = rw[0] + " " + text
		}
		edits = append(edits, edit{lo, hi, text})
	}
	if len(edits) == 0 {
		return src, false
	}
	sort.Slice(edits, func(i, j int) bool { return edits[i].lo > edits[j].lo })
	out := append([]byte(nil), src...)
	for _, e := range edits {
		out = append(out[:e.lo], append([]byte(e.text), out[e.hi:]...)...)
	}
	return out, true
}

func main() {
	repo := flag.String("repo", "/repo", "nutsdb working tree")
	shim := flag.String("shim", "/verif/mc/shim", "shim sources")
	out := flag.String("out", "", "output directory")
	flag.Parse()
	if *out == "" {
		die("-out required")
	}
	gen := filepath.Join(*out, "gen")
	os.RemoveAll(gen)
	if err := os.MkdirAll(gen, 0755); err != nil {
		die("%v", err)
	}
	replace := map[string]string{}

	// 1. instrumented copies of the working tree
	dirs := []string{"."}
	if ds, err := ioutil.ReadDir(filepath.Join(*repo, "ds")); err == nil {
		for _, d := range ds {
			if d.IsDir() {
				dirs = append(dirs, filepath.Join("ds", d.Name()))
			}
		}
	}
	n := 0
	for _, d := range dirs {
		files, err := ioutil.ReadDir(filepath.Join(*repo, d))
		if err != nil {
			die("%v", err)
		}
		for _, fi := range files {
			name := fi.Name()
			if fi.IsDir() || !strings.HasSuffix(name, ".go") || strings.HasSuffix(name, "_test.go") {
				continue
			}
			p := filepath.Join(*repo, d, name)
			src, err := ioutil.ReadFile(p)
			if err != nil {
				die("%v", err)
			}
			res, changed := instrument(src, p)
			if !changed {
				continue
			}
			dst := filepath.Join(gen, strings.Replace(filepath.Join(d, name), "/", "__", -1))
			if err := ioutil.WriteFile(dst, res, 0644); err != nil {
				die("%v", err)
			}
			replace[p] = dst
			n++
		}
	}

	// 2. virtual shim packages
	pkgs, err := ioutil.ReadDir(*shim)
	if err != nil {
		die("%v", err)
	}
	for _, pk := range pkgs {
		if !pk.IsDir() || !strings.HasPrefix(pk.Name(), "v") {
			continue
		}
		files, _ := ioutil.ReadDir(filepath.Join(*shim, pk.Name()))
		for _, fi := range files {
			if strings.HasSuffix(fi.Name(), ".go") {
				replace[filepath.Join(*repo, "verifshim", pk.Name(), fi.Name())] = filepath.Join(*shim, pk.Name(), fi.Name())
			}
		}
	}

	// 3. export files (build tag verif), named <pkgdir>__zz_verif_export.go in shim/export
	exps, _ := ioutil.ReadDir(filepath.Join(*shim, "export"))
	for _, fi := range exps {
		name := fi.Name()
		if !strings.HasSuffix(name, ".go") {
			continue
		}
		parts := strings.Split(name, "__")
		dir := "."
		if len(parts) > 1 {
			dir = strings.Replace(strings.Join(parts[:len(parts)-1], "/"), "root", ".", 1)
		}
		replace[filepath.Join(*repo, dir, parts[len(parts)-1])] = filepath.Join(*shim, "export", name)
	}

	// 4. instrumented dependency files (module cache): snowflake clock, utils/filesystem
	modcache := strings.TrimSpace(run("go", "env", "GOMODCACHE"))
	gomod, _ := ioutil.ReadFile(filepath.Join(*repo, "go.mod"))
	ver := func(mod string) string {
		for _, ln := range strings.Split(string(gomod), "\n") {
			f := strings.Fields(ln)
			for i, w := range f {
				if w == mod && i+1 < len(f) {
					return f[i+1]
				}
			}
		}
		return ""
	}
	if v := ver("github.com/bwmarrin/snowflake"); v != "" {
		p := filepath.Join(modcache, "github.com/bwmarrin/snowflake@"+v, "snowflake.go")
		if src, err := ioutil.ReadFile(p); err == nil {
			s := string(src)
			const call = "time.Since(n.epoch).Nanoseconds() / 1000000"
			if strings.Count(s, call) < 1 {
				die("snowflake.go: clock read not found")
			}
			s = strings.Replace(s, call, "verifNowMs(n)", -1)
			s += "\n// VerifNowMs, when set, replaces the millisecond clock (verification harness).\n" +
				"var VerifNowMs func() int64\n\nfunc verifNowMs(n *Node) int64 {\n\tif f := VerifNowMs; f != nil {\n\t\treturn f()\n\t}\n\treturn " + call + "\n}\n"
			dst := filepath.Join(gen, "dep__snowflake.go")
			ioutil.WriteFile(dst, []byte(s), 0644)
			replace[p] = dst
		}
	}
	if v := ver("github.com/xujiajun/utils"); v != "" {
		p := filepath.Join(modcache, "github.com/xujiajun/utils@"+v, "filesystem", "filesystem.go")
		dep := filepath.Join(*shim, "dep", "filesystem.go")
		if _, err := os.Stat(dep); err == nil {
			if _, err := os.Stat(p); err == nil {
				replace[p] = dep
			}
		}
	}

	js, _ := json.MarshalIndent(map[string]interface{}{"Replace": replace}, "", " ")
	if err := ioutil.WriteFile(filepath.Join(*out, "overlay.json"), js, 0644); err != nil {
		die("%v", err)
	}
	fmt.Printf("vgen: %d instrumented files, %d overlay entries\n", n, len(replace))
}

func run(name string, args ...string) string {
	b, err := exec.Command(name, args...).Output()
	if err != nil {
		die("%s: %v", name, err)
	}
	return string(b)
}
