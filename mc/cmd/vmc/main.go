// vmc is the model-checking harness for nutsdb (see /verif/DESIGN.md).
//
//	vmc check <Cxx> --tier quick|thorough   run the decision procedure of one property
//	vmc worker --tier T                      (internal) answer exploration jobs on stdin
//	vmc replay <file>                        re-execute a stored counterexample without the explorer
package main

import (
	"encoding/json"
	"fmt"
	"io/ioutil"
	"os"
	"strings"

	"verif/mc/checks"
	"verif/mc/core"
	"verif/mc/eng"
)

func usage() {
	fmt.Fprintln(os.Stderr, "usage: vmc check <Cxx> [--tier quick|thorough] | vmc worker | vmc replay <file>")
	os.Exit(2)
}

func argTier(args []string) string {
	tier := os.Getenv("VERIF_TIER")
	for i, a := range args {
		if a == "--tier" && i+1 < len(args) {
			tier = args[i+1]
		}
	}
	if tier != "thorough" {
		tier = "quick"
	}
	return tier
}

func main() {
	if len(os.Args) < 2 {
		usage()
	}
	root := os.Getenv("VERIF_ROOT")
	if root == "" {
		root = "/verif"
	}
	switch os.Args[1] {
	case "check":
		if len(os.Args) < 3 {
			usage()
		}
		id := os.Args[2]
		tier := argTier(os.Args[3:])
		chk := checks.Registry[id]
		if chk == nil {
			fmt.Fprintf(os.Stderr, "no check for %s\n", id)
			os.Exit(2)
		}
		checks.BuildProfiles(tier)
		core.InstallClock()
		r := checks.NewRun(id, tier, root)
		chk(r)
		code := r.Finish()
		r.Pool.Close()
		os.RemoveAll(core.ScratchRoot)
		os.Exit(code)
	case "worker":
		tier := argTier(os.Args[2:])
		checks.BuildProfiles(tier)
		core.InstallClock()
		defer os.RemoveAll(core.ScratchRoot)
		eng.WorkerLoop(tier, func(name string) *eng.Profile { return checks.Profiles[name] }, checks.Custom)
		os.RemoveAll(core.ScratchRoot)
	case "racepass":
		// vmc racepass <harness prefix> <rounds> <seed>   (in the -race binary)
		rounds, seed := 100, int64(0)
		if len(os.Args) > 3 {
			fmt.Sscan(os.Args[3], &rounds)
		}
		if len(os.Args) > 4 {
			fmt.Sscan(os.Args[4], &seed)
		}
		checks.RaceMain(os.Args[2], rounds, seed)
	case "zdebug":
		core.InstallClock()
		fmt.Println(checks.ZDebug())
	case "hunt":
		// debugging aid: vmc hunt <profile> <cfg index> <depth> <substring>: enumerate histories in
		// one process until a violation whose signature contains the substring shows up
		checks.BuildProfiles("quick")
		core.InstallClock()
		p := checks.Profiles[os.Args[2]]
		var ci, depth int
		fmt.Sscan(os.Args[3], &ci)
		fmt.Sscan(os.Args[4], &depth)
		cfg := p.Cfgs[ci]
		alpha := p.Ops(cfg)
		count := 0
		var rec func(seq []int) bool
		rec = func(seq []int) bool {
			if len(seq) > 0 {
				count++
				lf := eng.RunLeaf(p, cfg, alpha, seq)
				for _, v := range lf.Viol {
					if strings.Contains(strings.Join(v.Atoms, ","), os.Args[5]) {
						fmt.Println("found after", count, "leaves:", seq, v.Atoms)
						for _, o := range v.Ops {
							fmt.Println("  ", o)
						}
						fmt.Println(v.Detail)
						lf2 := eng.RunLeaf(p, cfg, alpha, seq)
						fmt.Println("immediately again:", len(lf2.Viol))
						return true
					}
				}
				if lf.NoExpand {
					return false
				}
			}
			if len(seq) == depth {
				return false
			}
			for j := range alpha {
				if rec(append(append([]int(nil), seq...), j)) {
					return true
				}
			}
			return false
		}
		rec(nil)
		fmt.Println("leaves:", count)
		os.RemoveAll(core.ScratchRoot)
	case "loop":
		// debugging aid: vmc loop <replay file> <n>: run the history n times in one process
		b, _ := ioutil.ReadFile(os.Args[2])
		var rp eng.Replay
		json.Unmarshal(b, &rp)
		n := 100
		fmt.Sscan(os.Args[3], &n)
		checks.BuildProfiles("quick")
		core.InstallClock()
		p := checks.Profiles[rp.Profile]
		bad := 0
		for i := 0; i < n; i++ {
			lf := eng.RunOps(p, rp.Violation.Cfg, rp.Violation.Ops)
			if len(lf.Viol) > 0 {
				bad++
				if bad == 1 {
					fmt.Println("first failure at iteration", i, lf.Viol[0].Detail)
				}
			}
		}
		fmt.Println("failures:", bad, "of", n)
		os.RemoveAll(core.ScratchRoot)
	case "replay":
		if len(os.Args) < 3 {
			usage()
		}
		b, err := ioutil.ReadFile(os.Args[2])
		if err != nil {
			fmt.Fprintln(os.Stderr, err)
			os.Exit(2)
		}
		var rp eng.Replay
		if err := json.Unmarshal(b, &rp); err != nil {
			fmt.Fprintln(os.Stderr, err)
			os.Exit(2)
		}
		tier := argTier(os.Args[3:])
		checks.BuildProfiles(tier)
		core.InstallClock()
		code := checks.Replay(rp)
		os.RemoveAll(core.ScratchRoot)
		os.Exit(code)
	default:
		usage()
	}
}
