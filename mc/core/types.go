// Package core holds the driver (configurations, operations, execution on the real database),
// the reference models and the observation function shared by all engines.
package core

import (
	"fmt"
	"math"
	"sort"
	"strconv"
	"strings"

	"github.com/xujiajun/nutsdb"
)

// Index / RW modes, short names used in configuration strings.
const (
	KV = 0 // HintKeyValAndRAMIdxMode
	K  = 1 // HintKeyAndRAMIdxMode
	S  = 2 // HintBPTSparseIdxMode
	F  = 0 // FileIO
	M  = 1 // MMap
)

// Cfg is one database configuration.
type Cfg struct {
	Mode  int   `json:"mode"`
	RW    int   `json:"rw"`
	Start int   `json:"start"`
	Sync  bool  `json:"sync"`
	Seg   int64 `json:"seg"`
}

func (c Cfg) String() string {
	m := [...]string{"KV", "K", "S"}[c.Mode]
	rw := [...]string{"F", "M"}
	s := "nosync"
	if c.Sync {
		s = "sync"
	}
	return fmt.Sprintf("%s/%s/%s/%s/seg%d", m, rw[c.RW], rw[c.Start], s, c.Seg)
}

// Options builds the nutsdb options for a directory.
func (c Cfg) Options(dir string) nutsdb.Options {
	return nutsdb.Options{
		Dir:                  dir,
		EntryIdxMode:         nutsdb.EntryIdxMode(c.Mode),
		RWMode:               nutsdb.RWMode(c.RW),
		StartFileLoadingMode: nutsdb.RWMode(c.Start),
		SyncEnable:           c.Sync,
		SegmentSize:          c.Seg,
		NodeNum:              1,
	}
}

// ZOpt mirrors zset.GetByScoreRangeOptions.
type ZOpt struct {
	Limit        int  `json:"limit,omitempty"`
	ExcludeStart bool `json:"xs,omitempty"`
	ExcludeEnd   bool `json:"xe,omitempty"`
}

// Call is one API call on a transaction.  All fields are plain data so that histories can be
// stored as replay files.
type Call struct {
	F    string   `json:"f"`
	B    string   `json:"b,omitempty"`
	B2   string   `json:"b2,omitempty"`
	K    string   `json:"k,omitempty"`
	K2   string   `json:"k2,omitempty"`
	V    string   `json:"v,omitempty"`
	Vs   []string `json:"vs,omitempty"`
	TTL  uint32   `json:"ttl,omitempty"`
	TS   int64    `json:"ts,omitempty"` // PutWithTimestamp: timestamp = now + TS
	I    int      `json:"i,omitempty"`
	J    int      `json:"j,omitempty"`
	X    float64  `json:"x,omitempty"`
	Y    float64  `json:"y,omitempty"`
	XS   string   `json:"xs,omitempty"` // "nan" | "+inf" | "-inf" overrides X (JSON has no such numbers)
	YS   string   `json:"ys,omitempty"`
	Re   string   `json:"re,omitempty"`
	Z    *ZOpt    `json:"z,omitempty"`
	NilK bool     `json:"nilk,omitempty"` // pass a nil key slice
	Big  int      `json:"big,omitempty"`  // value is Big bytes of 'x' (oversized entries)
	Esc  bool     `json:"esc,omitempty"`  // K, K2, V and Vs are Go-escaped ("a\\xff"): bytes that JSON cannot carry
	Fill string   `json:"fill,omitempty"` // with Big: "zero" = bytes 0x00, "ff" = bytes 0xff instead of 'x'
}

// Dec returns the call with its escaped fields decoded (see Esc).
func (c Call) Dec() Call {
	if !c.Esc {
		return c
	}
	u := func(s string) string {
		if r, err := strconv.Unquote(`"` + s + `"`); err == nil {
			return r
		}
		return s
	}
	c.K, c.K2, c.V = u(c.K), u(c.K2), u(c.V)
	if len(c.Vs) > 0 {
		vs := make([]string, len(c.Vs))
		for i, v := range c.Vs {
			vs[i] = u(v)
		}
		c.Vs = vs
	}
	c.Esc = false
	return c
}

// BigVal is the value of a call with Big > 0.
func (c Call) BigVal() string {
	ch := "x"
	switch c.Fill {
	case "zero":
		ch = "\x00"
	case "ff":
		ch = "\xff"
	}
	return strings.Repeat(ch, c.Big)
}

func (c Call) String() string {
	var sb strings.Builder
	sb.WriteString(c.F)
	sb.WriteByte('(')
	sb.WriteString(strconv.Quote(c.B))
	if c.B2 != "" {
		sb.WriteString("," + strconv.Quote(c.B2))
	}
	switch c.F {
	case "GetAll", "ZCard", "ZMembers", "ZPopMax", "ZPopMin", "ZPeekMax", "ZPeekMin":
	default:
		sb.WriteString("," + strconv.Quote(c.K))
	}
	if c.K2 != "" {
		sb.WriteString("," + strconv.Quote(c.K2))
	}
	if c.Big > 0 {
		fmt.Fprintf(&sb, ",<%d bytes%s>", c.Big, map[string]string{"": "", "zero": " 0x00", "ff": " 0xff"}[c.Fill])
	} else if c.V != "" || c.F == "Put" || c.F == "PutTS" {
		sb.WriteString("," + strconv.Quote(c.V))
	}
	for _, v := range c.Vs {
		sb.WriteString("," + strconv.Quote(v))
	}
	if c.TTL != 0 {
		fmt.Fprintf(&sb, ",ttl=%d", c.TTL)
	}
	if c.F == "PutTS" {
		fmt.Fprintf(&sb, ",ts=now%+d", c.TS)
	}
	switch c.F {
	case "LRange", "LTrim", "ZRangeByRank", "ZRemRangeByRank", "PrefixScan", "PrefixSearchScan":
		fmt.Fprintf(&sb, ",%d,%d", c.I, c.J)
	case "LRem", "LSet":
		fmt.Fprintf(&sb, ",%d", c.I)
	case "ZAdd":
		fmt.Fprintf(&sb, ",%v", c.FX())
	case "ZRangeByScore", "ZCount":
		fmt.Fprintf(&sb, ",%v,%v", c.FX(), c.FY())
		if c.Z != nil {
			fmt.Fprintf(&sb, ",%+v", *c.Z)
		}
	}
	if c.Re != "" {
		sb.WriteString(",re=" + strconv.Quote(c.Re))
	}
	sb.WriteByte(')')
	return sb.String()
}

// Fault is an injected failure of the n-th injectable file mutation of an op.
type Fault struct {
	At  int `json:"at"`
	Cut int `json:"cut,omitempty"`
}

// Op is one transition of a history.
type Op struct {
	// Kind: update | view | begin-commit | begin-rollback | reopen | merge | backup | tick
	Kind      string `json:"kind"`
	Calls     []Call `json:"calls,omitempty"`
	ErrAfter  int    `json:"err_after,omitempty"` // body returns an error after this many calls (0 = no)
	IgnoreErr bool   `json:"ignore_err,omitempty"`
	SameMs    bool   `json:"same_ms,omitempty"` // deviation: the ms clock does not advance before Begin
	Fault     *Fault `json:"fault,omitempty"`
	Ticks     int64  `json:"ticks,omitempty"`
	Note      string `json:"note,omitempty"`
}

func (o Op) String() string {
	var parts []string
	for _, c := range o.Calls {
		parts = append(parts, c.String())
	}
	s := o.Kind
	if len(parts) > 0 {
		s += "[" + strings.Join(parts, "; ") + "]"
	}
	if o.ErrAfter > 0 {
		s += fmt.Sprintf("{body-err-after %d}", o.ErrAfter)
	}
	if o.IgnoreErr {
		s += "{ignore-errs}"
	}
	if o.SameMs {
		s += "{same-ms}"
	}
	if o.Fault != nil {
		s += fmt.Sprintf("{fault@%d cut %d}", o.Fault.At, o.Fault.Cut)
	}
	if o.Kind == "tick" && o.Ticks > 1 {
		s += fmt.Sprintf("(%d)", o.Ticks)
	}
	return s
}

// IsWrite reports whether the op is a write transaction.
func (o Op) IsWrite() bool {
	return o.Kind == "update" || o.Kind == "begin-commit" || o.Kind == "begin-rollback"
}

// Res is the normalised result of one call.
type Res struct {
	Err   bool   `json:"err,omitempty"`
	Val   string `json:"val,omitempty"`
	Panic string `json:"panic,omitempty"`
	Msg   string `json:"msg,omitempty"` // error text (never compared)
}

func (r Res) String() string {
	if r.Panic != "" {
		return "PANIC(" + r.Panic + ")"
	}
	if r.Err {
		return "err"
	}
	return "ok:" + r.Val
}

// Expect is what the reference model allows for one call.
type Expect struct {
	// Err: 0 the call must succeed, 1 it must fail, 2 either (an error is accepted provided the
	// state is unchanged, which the following observation checks).
	Err  int
	Val  string
	Alts []string
	// Pred, when set, replaces the value comparison for successful results; it returns a
	// non-empty complaint when the result is not acceptable.
	Pred func(val string) string
	// AnyVal accepts every successful value.
	AnyVal bool
}

func (e Expect) String() string {
	switch e.Err {
	case 1:
		return "err"
	case 2:
		if e.AnyVal || e.Pred != nil {
			return "err|ok:<pred>"
		}
		return "err|ok:" + strings.Join(append([]string{e.Val}, e.Alts...), "|ok:")
	}
	if e.AnyVal || e.Pred != nil {
		return "ok:<pred>"
	}
	return "ok:" + strings.Join(append([]string{e.Val}, e.Alts...), "|ok:")
}

// Check compares a result with the expectation; it returns "" or a complaint.
func (e Expect) Check(r Res) string {
	if r.Panic != "" {
		return "panic: " + r.Panic
	}
	if r.Err {
		if e.Err == 0 {
			return "unexpected error (" + r.Msg + "), want " + e.String()
		}
		return ""
	}
	if e.Err == 1 {
		return "expected an error, got ok:" + r.Val
	}
	if e.AnyVal {
		return ""
	}
	if e.Pred != nil {
		return e.Pred(r.Val)
	}
	if r.Val == e.Val {
		return ""
	}
	for _, a := range e.Alts {
		if r.Val == a {
			return ""
		}
	}
	return "got ok:" + r.Val + ", want " + e.String()
}

func q(s string) string { return strconv.Quote(s) }

func fmtList(items []string) string { return "[" + strings.Join(items, ",") + "]" }

func sortedCopy(items []string) []string {
	c := append([]string(nil), items...)
	sort.Strings(c)
	return c
}

func fmtScore(f float64) string { return strconv.FormatFloat(f, 'g', -1, 64) }

func special(s string, f float64) float64 {
	switch s {
	case "nan":
		return math.NaN()
	case "+inf":
		return math.Inf(1)
	case "-inf":
		return math.Inf(-1)
	}
	return f
}

// FX returns the first float argument.
func (c Call) FX() float64 { return special(c.XS, c.X) }

// FY returns the second float argument.
func (c Call) FY() float64 { return special(c.YS, c.Y) }

// Symptom classifies how a result departs from the expectation ("" when it is acceptable).
func (e Expect) Symptom(r Res) string {
	if e.Check(r) == "" {
		return ""
	}
	if r.Panic != "" {
		return "panic"
	}
	if r.Err {
		return "err-for-ok"
	}
	if e.Err == 1 {
		return "ok-for-err"
	}
	if r.Val == "nil" {
		return "nil"
	}
	if e.Pred != nil || e.AnyVal {
		return "pred"
	}
	if strings.HasPrefix(r.Val, "[") && strings.HasPrefix(e.Val, "[") {
		got, want := splitList(r.Val), splitList(e.Val)
		gs, ws := map[string]bool{}, map[string]bool{}
		for _, g := range got {
			gs[g] = true
		}
		for _, w := range want {
			ws[w] = true
		}
		missing, extra := 0, 0
		for w := range ws {
			if !gs[w] {
				missing++
			}
		}
		for g := range gs {
			if !ws[g] {
				extra++
			}
		}
		switch {
		case missing > 0 && extra > 0:
			return "wrong-items"
		case missing > 0:
			return "missing"
		case extra > 0:
			return "extra"
		case len(got) != len(want):
			return "dup"
		default:
			return "order"
		}
	}
	return "wrong-value"
}

// Mismatch is one call whose result the model does not allow.
type Mismatch struct {
	Idx     int
	Call    Call
	Got     Res
	Want    string
	Symptom string
	Msg     string
}

func (m Mismatch) String() string {
	pre := ""
	if m.Idx > 0 {
		pre = fmt.Sprintf("call %d ", m.Idx)
	}
	return pre + m.Call.String() + ": " + m.Msg
}

// ArgClass abstracts the arguments of a call to the class that selects a code path.
func ArgClass(c Call) string {
	switch c.F {
	case "PrefixScan", "PrefixSearchScan":
		switch {
		case c.I > 0:
			return "(off)"
		case c.J == -1:
			return "(nolimit)"
		case c.J == 0:
			return "(lim0)"
		}
		return "(lim)"
	}
	return ""
}

// Atom names the failing call site and symptom.
func (m Mismatch) Atom() string { return m.Call.F + ArgClass(m.Call) + ":" + m.Symptom }
