package core

import (
	"strconv"
)

func (s *State) set(b, k string) map[string]bool { return s.Set[b][k] }

func (s *State) ensureSet(b, k string) map[string]bool {
	if s.Set[b] == nil {
		s.Set[b] = map[string]map[string]bool{}
	}
	if s.Set[b][k] == nil {
		s.Set[b][k] = map[string]bool{}
	}
	return s.Set[b][k]
}

func fmtSet(m map[string]bool) string { return fmtQ(sortedKeys(m)) }

func fmtBool(b bool) string { return strconv.FormatBool(b) }

func (s *State) evalSet(c Call, impl Res) (Expect, bool) {
	switch c.F {
	case "SAdd":
		e := Expect{}
		if c.K == "" {
			e.Err = 2
		}
		if ok(impl) {
			m := s.ensureSet(c.B, c.K)
			for _, v := range c.Vs {
				m[v] = true
			}
		}
		return e, true
	case "SRem":
		m := s.set(c.B, c.K)
		e := Expect{}
		if len(m) == 0 || c.K == "" {
			e.Err = 2
		}
		if ok(impl) {
			for _, v := range c.Vs {
				delete(m, v)
			}
		}
		return e, true
	case "SPop":
		m := s.set(c.B, c.K)
		if len(m) == 0 {
			return Expect{Err: 2, Val: "nil"}, true
		}
		before := map[string]bool{}
		for it := range m {
			before[q(it)] = true
		}
		if ok(impl) {
			if it, err := strconv.Unquote(impl.Val); err == nil {
				delete(m, it)
			}
		}
		return Expect{Pred: func(val string) string {
			if !before[val] {
				return "SPop returned " + val + " which is not a member"
			}
			return ""
		}}, true
	case "SMoveByOneBucket", "SMoveByTwoBuckets":
		b2 := c.B
		if c.F == "SMoveByTwoBuckets" {
			b2 = c.B2
		}
		src := s.set(c.B, c.K)
		dst := s.set(b2, c.K2)
		if !src[c.V] {
			// not a member: nothing may change; the reported value is not constrained
			return Expect{Err: 2, AnyVal: true}, true
		}
		e := Expect{Val: "true"}
		if len(dst) == 0 {
			e.Err = 2 // destination missing: created (Redis) or refused
		}
		if ok(impl) {
			if c.B == b2 && c.K == c.K2 {
				return e, true
			}
			delete(src, c.V)
			s.ensureSet(b2, c.K2)[c.V] = true
		}
		return e, true
	case "SIsMember":
		if s.set(c.B, c.K)[c.V] {
			return Expect{Val: "true"}, true
		}
		return Expect{Err: 2, Val: "false"}, true
	case "SAreMembers":
		m := s.set(c.B, c.K)
		all := true
		for _, v := range c.Vs {
			if !m[v] {
				all = false
			}
		}
		if all && len(m) > 0 {
			return Expect{Val: "true"}, true
		}
		if all { // no items asked on a missing set
			return Expect{Err: 2, AnyVal: true}, true
		}
		return Expect{Err: 2, Val: "false"}, true
	case "SMembers":
		m := s.set(c.B, c.K)
		if len(m) == 0 {
			return Expect{Err: 2, Val: "[]"}, true
		}
		return Expect{Val: fmtSet(m)}, true
	case "SCard":
		m := s.set(c.B, c.K)
		if len(m) == 0 {
			return Expect{Err: 2, Val: "0"}, true
		}
		return Expect{Val: strconv.Itoa(len(m))}, true
	case "SHasKey":
		m, exists := s.Set[c.B][c.K]
		if len(m) > 0 {
			return Expect{Val: "true"}, true
		}
		if exists {
			return Expect{Err: 2, AnyVal: true}, true
		}
		return Expect{Err: 2, Val: "false"}, true
	case "SDiffByOneBucket", "SDiffByTwoBuckets", "SUnionByOneBucket", "SUnionByTwoBuckets":
		b2 := c.B
		if c.F == "SDiffByTwoBuckets" || c.F == "SUnionByTwoBuckets" {
			b2 = c.B2
		}
		a, b := s.set(c.B, c.K), s.set(b2, c.K2)
		res := map[string]bool{}
		for it := range a {
			if c.F[1] == 'U' || !b[it] {
				res[it] = true
			}
		}
		if c.F[1] == 'U' {
			for it := range b {
				res[it] = true
			}
		}
		e := Expect{Val: fmtSet(res)}
		if len(a) == 0 || len(b) == 0 {
			e.Err = 2
		}
		return e, true
	}
	return Expect{}, false
}
