package core

import (
	"strconv"
	"strings"
)

// Redis-style list model.  Where C05 leaves a choice (bounds outside [-n, n-1], |count| > n,
// missing or emptied lists) the clamped Redis answer or an error with the list unchanged is
// accepted (Err: 2) and the model follows the implementation.

func fmtQ(items []string) string {
	out := make([]string, len(items))
	for i, it := range items {
		out[i] = q(it)
	}
	return fmtList(out)
}

func (s *State) list(b, k string) []string { return s.List[b][k] }

func (s *State) setList(b, k string, l []string) {
	if s.List[b] == nil {
		s.List[b] = map[string][]string{}
	}
	s.List[b][k] = l
}

// redisRange normalises (start,end) as Redis does and returns the half-open slice bounds.
func redisRange(n, start, end int) (lo, hi int) {
	if start < 0 {
		start += n
	}
	if end < 0 {
		end += n
	}
	if start < 0 {
		start = 0
	}
	if end >= n {
		end = n - 1
	}
	if start > end || start >= n {
		return 0, 0
	}
	return start, end + 1
}

func inExact(n, v int) bool { return v >= -n && v <= n-1 }

func ok(impl Res) bool { return !impl.Err && impl.Panic == "" }

func (s *State) evalList(c Call, impl Res) (Expect, bool) {
	l := s.list(c.B, c.K)
	n := len(l)
	switch c.F {
	case "RPush", "LPush":
		e := Expect{}
		if strings.Contains(c.K, "|") || c.K == "" {
			e.Err = 2
		}
		if ok(impl) {
			nl := append([]string(nil), l...)
			for _, v := range c.Vs {
				if c.F == "RPush" {
					nl = append(nl, v)
				} else {
					nl = append([]string{v}, nl...)
				}
			}
			if len(c.Vs) > 0 {
				s.setList(c.B, c.K, nl)
			}
		}
		return e, true
	case "LPop", "RPop", "LPeek", "RPeek":
		if n == 0 {
			return Expect{Err: 2, Val: "nil"}, true
		}
		var it string
		if c.F == "LPop" || c.F == "LPeek" {
			it = l[0]
		} else {
			it = l[n-1]
		}
		if ok(impl) {
			switch c.F {
			case "LPop":
				s.setList(c.B, c.K, append([]string(nil), l[1:]...))
			case "RPop":
				s.setList(c.B, c.K, append([]string(nil), l[:n-1]...))
			}
		}
		return Expect{Val: q(it)}, true
	case "LSize":
		if n == 0 {
			return Expect{Err: 2, Val: "0"}, true
		}
		return Expect{Val: strconv.Itoa(n)}, true
	case "LRange":
		lo, hi := redisRange(n, c.I, c.J)
		e := Expect{Val: fmtQ(l[lo:hi])}
		if n == 0 || !inExact(n, c.I) || !inExact(n, c.J) || lo == hi {
			e.Err = 2
		}
		return e, true
	case "LTrim":
		lo, hi := redisRange(n, c.I, c.J)
		e := Expect{}
		if n == 0 || !inExact(n, c.I) || !inExact(n, c.J) || lo == hi {
			e.Err = 2
		}
		if ok(impl) && n > 0 {
			s.setList(c.B, c.K, append([]string(nil), l[lo:hi]...))
		}
		return e, true
	case "LRem":
		cnt := c.I
		abs := cnt
		if abs < 0 {
			abs = -abs
		}
		var nl []string
		removed := 0
		if cnt >= 0 {
			for _, v := range l {
				if v == c.V && (cnt == 0 || removed < cnt) {
					removed++
				} else {
					nl = append(nl, v)
				}
			}
		} else {
			for i := n - 1; i >= 0; i-- {
				if l[i] == c.V && (abs < 0 || removed < abs) { // abs < 0 only for MinInt64
					removed++
				} else {
					nl = append([]string{l[i]}, nl...)
				}
			}
		}
		e := Expect{Val: strconv.Itoa(removed)}
		if n == 0 || abs > n || abs < 0 {
			e.Err = 2
		}
		if ok(impl) && n > 0 {
			s.setList(c.B, c.K, nl)
		}
		return e, true
	case "LSet":
		_, exists := s.List[c.B][c.K]
		switch {
		case !exists || n == 0:
			// missing or emptied list: an error is required unless the list never existed
			// in which case it is required as well
			return Expect{Err: 1}, true
		case c.I >= 0 && c.I < n:
			if ok(impl) {
				nl := append([]string(nil), l...)
				nl[c.I] = c.V
				s.setList(c.B, c.K, nl)
			}
			return Expect{}, true
		case c.I < 0 && c.I >= -n:
			if ok(impl) {
				nl := append([]string(nil), l...)
				nl[n+c.I] = c.V
				s.setList(c.B, c.K, nl)
			}
			return Expect{Err: 2}, true
		default:
			return Expect{Err: 1}, true
		}
	}
	return Expect{}, false
}
