package core

import (
	"bytes"
	"fmt"
	"regexp"
	"sort"
	"strings"
)

// Now0 is the virtual wall clock (seconds) at the start of every history.
const Now0 = 1000000

type kvRec struct {
	Val string
	TTL uint32
	TS  uint64
}

// ZMem is a sorted-set member.
type ZMem struct {
	Key   string
	Score float64
	Val   string
}

// State is the reference model: plain maps and slices.
type State struct {
	Now  int64
	KV   map[string]map[string]kvRec
	List map[string]map[string][]string
	Set  map[string]map[string]map[string]bool
	ZSet map[string][]ZMem
}

// NewState returns the empty model.
func NewState() *State {
	return &State{Now: Now0, KV: map[string]map[string]kvRec{}, List: map[string]map[string][]string{},
		Set: map[string]map[string]map[string]bool{}, ZSet: map[string][]ZMem{}}
}

// Clone deep-copies the model.
func (s *State) Clone() *State {
	c := NewState()
	c.Now = s.Now
	for b, m := range s.KV {
		c.KV[b] = map[string]kvRec{}
		for k, v := range m {
			c.KV[b][k] = v
		}
	}
	for b, m := range s.List {
		c.List[b] = map[string][]string{}
		for k, v := range m {
			c.List[b][k] = append([]string(nil), v...)
		}
	}
	for b, m := range s.Set {
		c.Set[b] = map[string]map[string]bool{}
		for k, v := range m {
			c.Set[b][k] = map[string]bool{}
			for it := range v {
				c.Set[b][k][it] = true
			}
		}
	}
	for b, z := range s.ZSet {
		c.ZSet[b] = append([]ZMem(nil), z...)
	}
	return c
}

func sortedKeys(m interface{}) []string {
	var ks []string
	switch t := m.(type) {
	case map[string]map[string]kvRec:
		for k := range t {
			ks = append(ks, k)
		}
	case map[string]kvRec:
		for k := range t {
			ks = append(ks, k)
		}
	case map[string]map[string][]string:
		for k := range t {
			ks = append(ks, k)
		}
	case map[string][]string:
		for k := range t {
			ks = append(ks, k)
		}
	case map[string]map[string]map[string]bool:
		for k := range t {
			ks = append(ks, k)
		}
	case map[string]map[string]bool:
		for k := range t {
			ks = append(ks, k)
		}
	case map[string]bool:
		for k := range t {
			ks = append(ks, k)
		}
	case map[string][]ZMem:
		for k := range t {
			ks = append(ks, k)
		}
	}
	sort.Strings(ks)
	return ks
}

// Canon is a deterministic rendering of the logical contents (what reads can observe now and in
// the future: expired pairs that can never come back are dropped, pairs with a TTL keep their
// remaining life time).
func (s *State) Canon() string {
	var sb strings.Builder
	for _, b := range sortedKeys(s.KV) {
		for _, k := range sortedKeys(s.KV[b]) {
			r := s.KV[b][k]
			if !s.live(r) {
				continue
			}
			left := int64(0)
			if r.TTL != 0 {
				left = int64(r.TS) + int64(r.TTL) - s.Now
			}
			fmt.Fprintf(&sb, "kv %q %q=%q left=%d\n", b, k, r.Val, left)
		}
	}
	for _, b := range sortedKeys(s.List) {
		for _, k := range sortedKeys(s.List[b]) {
			if len(s.List[b][k]) > 0 {
				fmt.Fprintf(&sb, "list %q %q=%q\n", b, k, s.List[b][k])
			}
		}
	}
	for _, b := range sortedKeys(s.Set) {
		for _, k := range sortedKeys(s.Set[b]) {
			if len(s.Set[b][k]) > 0 {
				fmt.Fprintf(&sb, "set %q %q=%q\n", b, k, sortedKeys(s.Set[b][k]))
			}
		}
	}
	for _, b := range sortedKeys(s.ZSet) {
		for _, m := range s.ZSet[b] {
			fmt.Fprintf(&sb, "zset %q %q %v %q\n", b, m.Key, m.Score, m.Val)
		}
	}
	return sb.String()
}

func (s *State) live(r kvRec) bool {
	return r.TTL == 0 || uint64(s.Now) < r.TS+uint64(r.TTL)
}

// liveKeys returns the live keys of a bucket in ascending byte order.
func (s *State) liveKeys(b string) []string {
	var ks []string
	for k, r := range s.KV[b] {
		if s.live(r) {
			ks = append(ks, k)
		}
	}
	sort.Strings(ks)
	return ks
}

func fmtEntry(b, k, v string) string { return q(b) + "/" + q(k) + "=" + q(v) }

func (s *State) fmtEntries(b string, ks []string) string {
	items := make([]string, len(ks))
	for i, k := range ks {
		items[i] = fmtEntry(b, k, s.KV[b][k].Val)
	}
	return fmtList(items)
}

// emptyOrErr: an empty result may be reported as an error or as an empty list.
func emptyOrErr() Expect { return Expect{Err: 2, Val: "[]"} }

// Eval returns what the model allows for a call and, for mutating calls, applies the effect to s.
// impl is the implementation's result: where the statement leaves a choice (SPop's member, an
// out-of-range list bound reported as error or clamped) the model follows it.
func (s *State) Eval(c Call, impl Res) Expect {
	c = c.Dec()
	switch c.F {
	case "Put", "PutTS":
		if c.K == "" {
			return Expect{Err: 2}.noEffectIfErr(impl, func() { s.put(c) })
		}
		if !impl.Err && impl.Panic == "" {
			s.put(c)
		}
		return Expect{}
	case "Delete":
		_, present := s.KV[c.B][c.K]
		e := Expect{}
		if !present || c.K == "" {
			e.Err = 2
		}
		if !impl.Err && impl.Panic == "" && s.KV[c.B] != nil {
			delete(s.KV[c.B], c.K)
		}
		return e
	case "Get":
		if r, ok := s.KV[c.B][c.K]; ok && s.live(r) {
			return Expect{Val: fmtEntry(c.B, c.K, r.Val)}
		}
		return Expect{Err: 1}
	case "GetAll":
		ks := s.liveKeys(c.B)
		if len(ks) == 0 {
			return emptyOrErr()
		}
		return Expect{Val: s.fmtEntries(c.B, ks)}
	case "RangeScan":
		if c.K > c.K2 {
			return emptyOrErr()
		}
		var ks []string
		for _, k := range s.liveKeys(c.B) {
			if k >= c.K && k <= c.K2 {
				ks = append(ks, k)
			}
		}
		if len(ks) == 0 {
			return emptyOrErr()
		}
		return Expect{Val: s.fmtEntries(c.B, ks)}
	case "PrefixScan", "PrefixSearchScan":
		return s.evalPrefix(c)
	}
	if e, ok := s.evalList(c, impl); ok {
		return e
	}
	if e, ok := s.evalSet(c, impl); ok {
		return e
	}
	if e, ok := s.evalZSet(c, impl); ok {
		return e
	}
	return Expect{Err: 2, AnyVal: true}
}

func (e Expect) noEffectIfErr(impl Res, apply func()) Expect {
	if !impl.Err && impl.Panic == "" {
		apply()
	}
	return e
}

func (s *State) put(c Call) {
	if s.KV[c.B] == nil {
		s.KV[c.B] = map[string]kvRec{}
	}
	ts := uint64(s.Now)
	if c.F == "PutTS" {
		ts = uint64(s.Now + c.TS)
	}
	v := c.V
	if c.Big > 0 {
		v = c.BigVal()
	}
	s.KV[c.B][c.K] = kvRec{Val: v, TTL: c.TTL, TS: ts}
}

// evalPrefix: PrefixScan(bucket, prefix, offset=I, limit=J) and PrefixSearchScan(..., re).
func (s *State) evalPrefix(c Call) Expect {
	var rgx *regexp.Regexp
	if c.F == "PrefixSearchScan" {
		var err error
		rgx, err = regexp.Compile(c.Re)
		if err != nil {
			return Expect{Err: 1}
		}
	}
	var ks []string
	for _, k := range s.liveKeys(c.B) {
		if !strings.HasPrefix(k, c.K) {
			continue
		}
		if rgx != nil && !rgx.Match(bytes.TrimPrefix([]byte(k), []byte(c.K))) {
			continue
		}
		ks = append(ks, k)
	}
	all := ks
	off, lim := c.I, c.J
	if lim == 0 || off < 0 || lim < -1 {
		// outside the statement: only "ascending, live, prefixed (matching) keys with their values"
		allowed := map[string]bool{}
		for _, k := range all {
			allowed[fmtEntry(c.B, k, s.KV[c.B][k].Val)] = true
		}
		return Expect{Err: 2, Pred: func(val string) string {
			items := splitList(val)
			for i, it := range items {
				if !allowed[it] {
					return "entry " + it + " is not a live matching pair"
				}
				if i > 0 && items[i-1] >= it {
					return "entries not in ascending order"
				}
			}
			return ""
		}}
	}
	if off > len(ks) {
		off = len(ks)
	}
	ks = ks[off:]
	if lim > 0 && len(ks) > lim {
		ks = ks[:lim]
	}
	if len(ks) == 0 {
		return emptyOrErr()
	}
	return Expect{Val: s.fmtEntries(c.B, ks)}
}

// splitList splits the rendering produced by fmtList of quoted items (no nesting).
func splitList(val string) []string {
	val = strings.TrimSuffix(strings.TrimPrefix(val, "["), "]")
	if val == "" {
		return nil
	}
	var out []string
	depth, inq, start := 0, false, 0
	for i := 0; i < len(val); i++ {
		ch := val[i]
		switch {
		case inq && ch == '\\':
			i++
		case ch == '"':
			inq = !inq
		case !inq && ch == '[':
			depth++
		case !inq && ch == ']':
			depth--
		case !inq && depth == 0 && ch == ',':
			out = append(out, val[start:i])
			start = i + 1
		}
	}
	return append(out, val[start:])
}
