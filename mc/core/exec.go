package core

import (
	"errors"
	"fmt"
	"os"
	"path/filepath"
	"sort"
	"strconv"

	"github.com/bwmarrin/snowflake"
	"github.com/xujiajun/nutsdb"
	"github.com/xujiajun/nutsdb/ds/zset"
	"github.com/xujiajun/nutsdb/verifshim/vrt"
)

// Clock is the virtual environment clock: seconds for TTLs and record timestamps, milliseconds
// for the transaction-id generator.
type Clock struct {
	Sec    int64
	Ms     int64
	HoldMs bool // the next id is generated in the same millisecond as the previous one
}

// TheClock is the process-wide virtual clock (the shims read it through package variables).
var TheClock = &Clock{Sec: Now0, Ms: 1000}

// Levels is the queue of skip-list levels the environment hands out (level 1 when empty).
var Levels []int

// RealClocks disables the virtual clocks (free-running race pass).
var RealClocks bool

// InstallClock points the shims at TheClock and resets it.
func InstallClock() {
	if RealClocks {
		vrt.NowSec, vrt.RandInt, snowflake.VerifNowMs = nil, nil, nil
		return
	}
	TheClock.Sec, TheClock.Ms, TheClock.HoldMs = Now0, 1000, false
	vrt.NowSec = func() int64 { return TheClock.Sec }
	Levels = nil
	vrt.RandInt = func() int {
		// skip-list level of the next node: randomLevel() draws until an answer >= 0.25*0xFFFF;
		// level L = (L-1) small answers followed by a large one.  Default level 1.
		if len(Levels) == 0 {
			return 0xFFFF
		}
		if Levels[0] > 1 {
			Levels[0]--
			return 0
		}
		Levels = Levels[1:]
		return 0xFFFF
	}
	snowflake.VerifNowMs = func() int64 {
		if TheClock.HoldMs {
			TheClock.HoldMs = false
			return TheClock.Ms
		}
		TheClock.Ms++
		return TheClock.Ms
	}
}

// ScratchRoot is where database directories are created.
var ScratchRoot = func() string {
	d := "/dev/shm"
	if st, err := os.Stat(d); err != nil || !st.IsDir() {
		d = os.TempDir()
	}
	return filepath.Join(d, fmt.Sprintf("verif-%d", os.Getpid()))
}()

var dirSeq int

// NewDir returns a fresh empty directory path (not created).
func NewDir() string {
	dirSeq++
	return filepath.Join(ScratchRoot, fmt.Sprintf("d%d%s", dirSeq, DirSuffix))
}

// DirSuffix is appended to the names of new database directories (directory names with glob
// metacharacters, spaces, ...).
var DirSuffix = ""

// Inst is one real database instance under test together with the reference model.
type Inst struct {
	Cfg      Cfg
	Dir      string
	DB       *nutsdb.DB
	Model    *State
	Poisoned string // a panic left the instance unusable
	OpenErr  error
}

// OpResult is what an op returned.
type OpResult struct {
	Err     bool       `json:"err,omitempty"`
	Msg     string     `json:"msg,omitempty"`
	Calls   []Res      `json:"calls,omitempty"`
	After   []Res      `json:"after,omitempty"`
	Panic   string     `json:"panic,omitempty"`
	Faulted bool       `json:"faulted,omitempty"`
	Notes   []string   `json:"notes,omitempty"` // oracle complaints about the op's own outcome
	Bad     []Mismatch `json:"-"`               // calls whose result the model does not allow
}

// OpenInst opens a fresh database.
func OpenInst(cfg Cfg) *Inst {
	in := &Inst{Cfg: cfg, Dir: NewDir(), Model: NewState()}
	InstallClock()
	in.open()
	return in
}

func (in *Inst) open() {
	defer func() {
		if r := recover(); r != nil {
			in.Poisoned = fmt.Sprintf("Open panicked: %v", r)
			in.OpenErr = errors.New(in.Poisoned)
		}
	}()
	db, err := nutsdb.Open(in.Cfg.Options(in.Dir))
	in.DB, in.OpenErr = db, err
}

// Discard closes (when safe) and removes the directory.
func (in *Inst) Discard() {
	if in.DB != nil && in.Poisoned == "" {
		func() {
			defer func() { recover() }()
			in.DB.Close()
		}()
	}
	in.DB = nil
	os.RemoveAll(in.Dir)
}

var errBody = errors.New("verif: body error")

func entrySize(c Call) int64 {
	c = c.Dec()
	v := len(c.V)
	if c.Big > 0 {
		v = c.Big
	}
	return int64(42 + len(c.B) + len(c.K) + v)
}

// Oversize reports whether a KV write of this call cannot fit a segment.
func (in *Inst) Oversize(c Call) bool {
	return (c.F == "Put" || c.F == "PutTS") && entrySize(c) > in.Cfg.Seg
}

// IsMutator reports whether the call is a write API.
func IsMutator(f string) bool {
	switch f {
	case "Put", "PutTS", "Delete", "RPush", "LPush", "LPop", "RPop", "LRem", "LSet", "LTrim",
		"SAdd", "SRem", "SPop", "SMoveByOneBucket", "SMoveByTwoBuckets",
		"ZAdd", "ZRem", "ZRemRangeByRank", "ZPopMax", "ZPopMin":
		return true
	}
	return false
}

// runBody executes the calls of an op on tx, evaluating the model on work as it goes.
func (in *Inst) runBody(tx *nutsdb.Tx, op Op, work *State, writable bool, res *OpResult) error {
	for i, c := range op.Calls {
		r := ExecCall(tx, c)
		res.Calls = append(res.Calls, r)
		var exp Expect
		if !writable && IsMutator(c.F) {
			exp = Expect{Err: 1}
		} else {
			exp = work.Eval(c, r)
		}
		if msg := exp.Check(r); msg != "" {
			res.Bad = append(res.Bad, Mismatch{Idx: i + 1, Call: c, Got: r, Want: exp.String(), Symptom: exp.Symptom(r), Msg: msg})
		}
		if r.Panic != "" {
			res.Panic = r.Panic
			return errBody
		}
		if r.Err && !op.IgnoreErr {
			return errBody
		}
		if op.ErrAfter == i+1 {
			return errBody
		}
	}
	return nil
}

// Apply executes one op on the real database and on the model.  Oracle complaints about call
// results and about the op's own outcome are returned in OpResult.Notes.
func (in *Inst) Apply(op Op) (res OpResult) {
	if in.Poisoned != "" {
		res.Err, res.Msg = true, "poisoned: "+in.Poisoned
		return
	}
	if in.DB == nil && op.Kind != "tick" {
		res.Err, res.Msg = true, "database not open"
		return
	}
	defer func() {
		vrt.Disarm()
		if r := recover(); r != nil {
			res.Panic = fmt.Sprintf("%v", r)
			res.Err = true
			in.Poisoned = res.Panic
		}
	}()
	if op.SameMs {
		TheClock.HoldMs = true
	}
	if op.Fault != nil {
		vrt.Arm(op.Fault.At, op.Fault.Cut)
	}
	switch op.Kind {
	case "tick":
		t := op.Ticks
		if t == 0 {
			t = 1
		}
		TheClock.Sec += t
		in.Model.Now = TheClock.Sec
	case "reopen":
		err := in.DB.Close()
		if err != nil {
			res.Err, res.Msg = true, "Close: "+err.Error()
			res.Notes = append(res.Notes, "Close failed: "+err.Error())
			return
		}
		in.DB = nil
		in.open()
		if in.OpenErr != nil {
			res.Err, res.Msg = true, "Open: "+in.OpenErr.Error()
		}
	case "merge":
		if err := in.DB.Merge(); err != nil {
			res.Err, res.Msg = true, err.Error()
		}
	case "view":
		work := in.Model.Clone()
		err := in.DB.View(func(tx *nutsdb.Tx) error { return in.runBody(tx, op, work, false, &res) })
		if err != nil {
			res.Err, res.Msg = true, err.Error()
		}
	case "update", "begin-commit", "begin-rollback":
		work := in.Model.Clone()
		var err error
		if op.Kind == "update" {
			err = in.DB.Update(func(tx *nutsdb.Tx) error { return in.runBody(tx, op, work, true, &res) })
		} else {
			var tx *nutsdb.Tx
			tx, err = in.DB.Begin(true)
			if err == nil {
				err = in.runBody(tx, op, work, true, &res)
				if err != nil || op.Kind == "begin-rollback" {
					if rerr := tx.Rollback(); rerr != nil && err == nil {
						err = rerr
					} else if err == nil {
						err = errBody // rolled back on purpose
					}
				} else if err = tx.Commit(); err != nil {
					tx.Rollback()
				}
				// calls on the finished transaction must fail and change nothing
				for _, c := range op.Calls {
					r := ExecCall(tx, c)
					res.After = append(res.After, r)
					if !r.Err || r.Panic != "" {
						res.Notes = append(res.Notes, fmt.Sprintf("call %s on a finished transaction returned %s, want err", c, r))
					}
				}
				if e2 := tx.Commit(); e2 == nil {
					res.Notes = append(res.Notes, "Commit on a finished transaction returned nil")
				}
				if e2 := tx.Rollback(); e2 == nil {
					res.Notes = append(res.Notes, "Rollback on a finished transaction returned nil")
				}
			}
		}
		fired, _ := vrt.Fired()
		res.Faulted = op.Fault != nil && fired
		expectFail := false
		why := ""
		if op.Kind == "begin-rollback" {
			expectFail, why = true, "rolled back"
		}
		for i, c := range op.Calls {
			if i < len(res.Calls) && res.Calls[i].Err && !op.IgnoreErr {
				expectFail, why = true, "a call failed"
			}
			if i < len(res.Calls) && !res.Calls[i].Err && in.Oversize(c) {
				expectFail, why = true, "oversized entry"
			}
			if op.ErrAfter == i+1 && i < len(res.Calls) {
				expectFail, why = true, "body returned an error"
			}
		}
		if res.Panic != "" {
			expectFail = true
		}
		if err != nil {
			res.Err, res.Msg = true, err.Error()
			if !expectFail && !res.Faulted {
				res.Notes = append(res.Notes, "write transaction failed unexpectedly: "+err.Error())
			}
		} else {
			if expectFail {
				res.Notes = append(res.Notes, "write transaction succeeded although "+why)
			}
			in.Model = work
		}
	default:
		panic("unknown op kind " + op.Kind)
	}
	return
}

// Observe runs the observation queries in one read-only transaction (shims transparent).
func (in *Inst) Observe(queries []Call) (out []Res, err error) {
	if in.Poisoned != "" || in.DB == nil {
		return nil, errors.New("instance unusable")
	}
	saved := vrt.GetMode()
	vrt.SetMode(vrt.Pass)
	defer vrt.SetMode(saved)
	defer func() {
		if r := recover(); r != nil {
			in.Poisoned = fmt.Sprintf("%v", r)
			err = fmt.Errorf("panic in observation: %v", r)
		}
	}()
	err = in.DB.View(func(tx *nutsdb.Tx) error {
		for _, c := range queries {
			out = append(out, ExecCall(tx, c))
		}
		return nil
	})
	return
}

// CheckObs compares an observation with the model; it returns the mismatches.
func CheckObs(model *State, queries []Call, obs []Res) []Mismatch {
	var bad []Mismatch
	m := model.Clone()
	for i, c := range queries {
		if i >= len(obs) {
			break
		}
		exp := m.Eval(c, obs[i])
		if msg := exp.Check(obs[i]); msg != "" {
			bad = append(bad, Mismatch{Call: c, Got: obs[i], Want: exp.String(), Symptom: exp.Symptom(obs[i]), Msg: msg})
		}
	}
	return bad
}

// normRes maps results the statements treat as the same answer to one form: an empty result
// may be reported as an error or as an empty value (DESIGN.md 4.1).
func normRes(c Call, r Res) string {
	if r.Panic != "" {
		return r.String()
	}
	empty := ""
	switch c.F {
	case "GetAll", "RangeScan", "PrefixScan", "PrefixSearchScan", "LRange", "SMembers", "ZMembers", "ZRangeByScore", "ZRangeByRank",
		"SDiffByOneBucket", "SDiffByTwoBuckets", "SUnionByOneBucket", "SUnionByTwoBuckets":
		empty = "[]"
	case "LSize", "SCard", "ZCard", "ZCount", "ZRank", "ZRevRank":
		empty = "0"
	case "SIsMember", "SAreMembers", "SHasKey":
		empty = "false"
	case "LPeek", "RPeek", "ZPeekMin", "ZPeekMax":
		empty = "nil"
	default:
		return r.String()
	}
	if r.Err || r.Val == empty {
		return "empty"
	}
	return r.String()
}

// DiffObs compares two observations query by query; the first is the reference.
func DiffObs(queries []Call, a, b []Res) []Mismatch {
	var bad []Mismatch
	for i, c := range queries {
		if i >= len(a) || i >= len(b) {
			break
		}
		if normRes(c, a[i]) != normRes(c, b[i]) {
			exp := Expect{Val: a[i].Val}
			if a[i].Err {
				exp = Expect{Err: 1}
			}
			sym := exp.Symptom(b[i])
			if sym == "" {
				sym = "differs"
			}
			bad = append(bad, Mismatch{Call: c, Got: b[i], Want: a[i].String(), Symptom: sym, Msg: fmt.Sprintf("%s before, %s after", a[i], b[i])})
		}
	}
	return bad
}

func key(c Call) []byte {
	if c.NilK {
		return nil
	}
	return []byte(c.K)
}

func val(c Call) []byte {
	if c.Big > 0 {
		return []byte(c.BigVal())
	}
	return []byte(c.V)
}

func vals(c Call) [][]byte {
	out := make([][]byte, len(c.Vs))
	for i, v := range c.Vs {
		out[i] = []byte(v)
	}
	return out
}

func resErr(err error) Res { return Res{Err: true, Msg: err.Error()} }

func fmtEntries(es nutsdb.Entries) string {
	items := make([]string, len(es))
	for i, e := range es {
		if e == nil {
			items[i] = "nil"
			continue
		}
		items[i] = fmtEntry(nutsdb.VerifBucket(e), string(e.Key), string(e.Value))
	}
	return fmtList(items)
}

func fmtBytesList(l [][]byte, sorted bool) string {
	items := make([]string, len(l))
	for i, b := range l {
		items[i] = q(string(b))
	}
	if sorted {
		sort.Strings(items)
	}
	return fmtList(items)
}

func fmtNode(n *zset.SortedSetNode) string {
	if n == nil {
		return "nil"
	}
	return q(n.Key()) + ":" + fmtScore(float64(n.Score())) + ":" + q(string(n.Value))
}

func fmtNodes(ns []*zset.SortedSetNode) string {
	items := make([]string, len(ns))
	for i, n := range ns {
		items[i] = fmtNode(n)
	}
	return fmtList(items)
}

func zopt(c Call) *zset.GetByScoreRangeOptions {
	if c.Z == nil {
		return nil
	}
	return &zset.GetByScoreRangeOptions{Limit: c.Z.Limit, ExcludeStart: c.Z.ExcludeStart, ExcludeEnd: c.Z.ExcludeEnd}
}

// ExecCall performs one API call on a real transaction and normalises the result.
func ExecCall(tx *nutsdb.Tx, c Call) (r Res) {
	c = c.Dec()
	defer func() {
		if p := recover(); p != nil {
			r = Res{Err: true, Panic: fmt.Sprintf("%s: %v", c.F, p)}
		}
	}()
	okOrErr := func(err error) Res {
		if err != nil {
			return resErr(err)
		}
		return Res{}
	}
	switch c.F {
	case "Put":
		return okOrErr(tx.Put(c.B, key(c), val(c), c.TTL))
	case "PutTS":
		return okOrErr(tx.PutWithTimestamp(c.B, key(c), val(c), c.TTL, uint64(TheClock.Sec+c.TS)))
	case "Delete":
		return okOrErr(tx.Delete(c.B, key(c)))
	case "Get":
		e, err := tx.Get(c.B, key(c))
		if err != nil {
			return resErr(err)
		}
		if e == nil {
			return Res{Val: "nil"}
		}
		return Res{Val: fmtEntry(nutsdb.VerifBucket(e), string(e.Key), string(e.Value))}
	case "GetAll":
		es, err := tx.GetAll(c.B)
		if err != nil {
			return resErr(err)
		}
		return Res{Val: fmtEntries(es)}
	case "RangeScan":
		es, err := tx.RangeScan(c.B, key(c), []byte(c.K2))
		if err != nil {
			return resErr(err)
		}
		return Res{Val: fmtEntries(es)}
	case "PrefixScan":
		es, _, err := tx.PrefixScan(c.B, key(c), c.I, c.J)
		if err != nil {
			return resErr(err)
		}
		return Res{Val: fmtEntries(es)}
	case "PrefixSearchScan":
		es, _, err := tx.PrefixSearchScan(c.B, key(c), c.Re, c.I, c.J)
		if err != nil {
			return resErr(err)
		}
		return Res{Val: fmtEntries(es)}

	case "RPush":
		return okOrErr(tx.RPush(c.B, key(c), vals(c)...))
	case "LPush":
		return okOrErr(tx.LPush(c.B, key(c), vals(c)...))
	case "LPop", "RPop", "LPeek", "RPeek":
		var it []byte
		var err error
		switch c.F {
		case "LPop":
			it, err = tx.LPop(c.B, key(c))
		case "RPop":
			it, err = tx.RPop(c.B, key(c))
		case "LPeek":
			it, err = tx.LPeek(c.B, key(c))
		default:
			it, err = tx.RPeek(c.B, key(c))
		}
		if err != nil {
			return resErr(err)
		}
		if it == nil {
			return Res{Val: "nil"}
		}
		return Res{Val: q(string(it))}
	case "LSize":
		n, err := tx.LSize(c.B, key(c))
		if err != nil {
			return resErr(err)
		}
		return Res{Val: strconv.Itoa(n)}
	case "LRange":
		l, err := tx.LRange(c.B, key(c), c.I, c.J)
		if err != nil {
			return resErr(err)
		}
		return Res{Val: fmtBytesList(l, false)}
	case "LRem":
		n, err := tx.LRem(c.B, key(c), c.I, []byte(c.V))
		if err != nil {
			return resErr(err)
		}
		return Res{Val: strconv.Itoa(n)}
	case "LSet":
		return okOrErr(tx.LSet(c.B, key(c), c.I, []byte(c.V)))
	case "LTrim":
		return okOrErr(tx.LTrim(c.B, key(c), c.I, c.J))

	case "SAdd":
		return okOrErr(tx.SAdd(c.B, key(c), vals(c)...))
	case "SRem":
		return okOrErr(tx.SRem(c.B, key(c), vals(c)...))
	case "SPop":
		it, err := tx.SPop(c.B, key(c))
		if err != nil {
			return resErr(err)
		}
		if it == nil {
			return Res{Val: "nil"}
		}
		return Res{Val: q(string(it))}
	case "SMoveByOneBucket":
		b, err := tx.SMoveByOneBucket(c.B, key(c), []byte(c.K2), []byte(c.V))
		if err != nil {
			return resErr(err)
		}
		return Res{Val: fmtBool(b)}
	case "SMoveByTwoBuckets":
		b, err := tx.SMoveByTwoBuckets(c.B, key(c), c.B2, []byte(c.K2), []byte(c.V))
		if err != nil {
			return resErr(err)
		}
		return Res{Val: fmtBool(b)}
	case "SIsMember":
		b, err := tx.SIsMember(c.B, key(c), []byte(c.V))
		if err != nil {
			return resErr(err)
		}
		return Res{Val: fmtBool(b)}
	case "SAreMembers":
		b, err := tx.SAreMembers(c.B, key(c), vals(c)...)
		if err != nil {
			return resErr(err)
		}
		return Res{Val: fmtBool(b)}
	case "SMembers":
		l, err := tx.SMembers(c.B, key(c))
		if err != nil {
			return resErr(err)
		}
		return Res{Val: fmtBytesList(l, true)}
	case "SCard":
		n, err := tx.SCard(c.B, key(c))
		if err != nil {
			return resErr(err)
		}
		return Res{Val: strconv.Itoa(n)}
	case "SHasKey":
		b, err := tx.SHasKey(c.B, key(c))
		if err != nil {
			return resErr(err)
		}
		return Res{Val: fmtBool(b)}
	case "SDiffByOneBucket", "SUnionByOneBucket":
		var l [][]byte
		var err error
		if c.F[1] == 'D' {
			l, err = tx.SDiffByOneBucket(c.B, key(c), []byte(c.K2))
		} else {
			l, err = tx.SUnionByOneBucket(c.B, key(c), []byte(c.K2))
		}
		if err != nil {
			return resErr(err)
		}
		return Res{Val: fmtBytesList(l, true)}
	case "SDiffByTwoBuckets", "SUnionByTwoBuckets":
		var l [][]byte
		var err error
		if c.F[1] == 'D' {
			l, err = tx.SDiffByTwoBuckets(c.B, key(c), c.B2, []byte(c.K2))
		} else {
			l, err = tx.SUnionByTwoBuckets(c.B, key(c), c.B2, []byte(c.K2))
		}
		if err != nil {
			return resErr(err)
		}
		return Res{Val: fmtBytesList(l, true)}

	case "ZAdd":
		return okOrErr(tx.ZAdd(c.B, key(c), c.FX(), []byte(c.V)))
	case "ZRem":
		return okOrErr(tx.ZRem(c.B, c.K))
	case "ZRemRangeByRank":
		return okOrErr(tx.ZRemRangeByRank(c.B, c.I, c.J))
	case "ZPopMax", "ZPopMin", "ZPeekMax", "ZPeekMin":
		var n *zset.SortedSetNode
		var err error
		switch c.F {
		case "ZPopMax":
			n, err = tx.ZPopMax(c.B)
		case "ZPopMin":
			n, err = tx.ZPopMin(c.B)
		case "ZPeekMax":
			n, err = tx.ZPeekMax(c.B)
		default:
			n, err = tx.ZPeekMin(c.B)
		}
		if err != nil {
			return resErr(err)
		}
		return Res{Val: fmtNode(n)}
	case "ZCard":
		n, err := tx.ZCard(c.B)
		if err != nil {
			return resErr(err)
		}
		return Res{Val: strconv.Itoa(n)}
	case "ZMembers":
		m, err := tx.ZMembers(c.B)
		if err != nil {
			return resErr(err)
		}
		ks := make([]string, 0, len(m))
		for k := range m {
			ks = append(ks, k)
		}
		sort.Strings(ks)
		items := make([]string, len(ks))
		for i, k := range ks {
			n := m[k]
			if n != nil && n.Key() != k {
				items[i] = "MISKEYED(" + q(k) + ")" + fmtNode(n)
			} else {
				items[i] = fmtNode(n)
			}
		}
		return Res{Val: fmtList(items)}
	case "ZScore":
		s, err := tx.ZScore(c.B, key(c))
		if err != nil {
			return resErr(err)
		}
		return Res{Val: fmtScore(s)}
	case "ZGetByKey":
		n, err := tx.ZGetByKey(c.B, key(c))
		if err != nil {
			return resErr(err)
		}
		return Res{Val: fmtNode(n)}
	case "ZRank", "ZRevRank":
		var n int
		var err error
		if c.F == "ZRank" {
			n, err = tx.ZRank(c.B, key(c))
		} else {
			n, err = tx.ZRevRank(c.B, key(c))
		}
		if err != nil {
			return resErr(err)
		}
		return Res{Val: strconv.Itoa(n)}
	case "ZRangeByScore":
		ns, err := tx.ZRangeByScore(c.B, c.FX(), c.FY(), zopt(c))
		if err != nil {
			return resErr(err)
		}
		return Res{Val: fmtNodes(ns)}
	case "ZCount":
		n, err := tx.ZCount(c.B, c.FX(), c.FY(), zopt(c))
		if err != nil {
			return resErr(err)
		}
		return Res{Val: strconv.Itoa(n)}
	case "ZRangeByRank":
		ns, err := tx.ZRangeByRank(c.B, c.I, c.J)
		if err != nil {
			return resErr(err)
		}
		return Res{Val: fmtNodes(ns)}
	}
	fmt.Fprintln(os.Stderr, "HARNESS-ERROR: ExecCall: unknown call "+c.F)
	os.Exit(2)
	return
}

// OpenDir opens an existing directory (a crash image, a backup copy) as an instance.
func OpenDir(cfg Cfg, dir string, model *State) *Inst {
	in := &Inst{Cfg: cfg, Dir: dir, Model: model}
	in.open()
	return in
}

// CloseOnly closes the database without removing the directory.
func (in *Inst) CloseOnly() error {
	if in.DB == nil || in.Poisoned != "" {
		return nil
	}
	var err error
	func() {
		defer func() {
			if r := recover(); r != nil {
				err = fmt.Errorf("panic in Close: %v", r)
				in.Poisoned = err.Error()
			}
		}()
		err = in.DB.Close()
	}()
	in.DB = nil
	return err
}
