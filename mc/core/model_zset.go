package core

import (
	"math"
	"sort"
	"strconv"
	"strings"
)

func fmtZ(m ZMem) string { return q(m.Key) + ":" + fmtScore(m.Score) + ":" + q(m.Val) }

func fmtZs(ms []ZMem) string {
	out := make([]string, len(ms))
	for i, m := range ms {
		out[i] = fmtZ(m)
	}
	return fmtList(out)
}

func zless(a, b ZMem) bool {
	if a.Score != b.Score {
		return a.Score < b.Score
	}
	return a.Key < b.Key
}

func (s *State) zfind(b, key string) int {
	for i, m := range s.ZSet[b] {
		if m.Key == key {
			return i
		}
	}
	return -1
}

func (s *State) zremoveAt(b string, i int) {
	z := s.ZSet[b]
	s.ZSet[b] = append(append([]ZMem(nil), z[:i]...), z[i+1:]...)
}

func (s *State) zadd(b string, m ZMem) {
	if i := s.zfind(b, m.Key); i >= 0 {
		s.zremoveAt(b, i)
	}
	z := append([]ZMem(nil), s.ZSet[b]...)
	z = append(z, m)
	sort.SliceStable(z, func(i, j int) bool { return zless(z[i], z[j]) })
	s.ZSet[b] = z
}

// zrank normalises a documented rank (1-based, negative from the tail); exact reports whether it
// lies in [-n,-1] ∪ [1,n].
func zrank(n, r int) (idx int, exact bool) {
	exact = (r >= 1 && r <= n) || (r <= -1 && r >= -n)
	if r < 0 {
		r = n + r + 1
	}
	if r <= 0 {
		r = 1
	}
	if r > n {
		r = n
	}
	return r, exact
}

// zwindow normalises a rank window: negative ranks count from the end, ranks that are then still
// below 1 stand for 1, the upper side is cut at n.  lo > hi means the window holds no member.
func zwindow(n, a, b int) (lo, hi int, rev bool) {
	norm := func(r int) int {
		if r < 0 {
			r = n + r + 1
		}
		if r <= 0 {
			r = 1
		}
		return r
	}
	a, b = norm(a), norm(b)
	rev = a > b
	if rev {
		a, b = b, a
	}
	if b > n {
		b = n
	}
	return a, b, rev
}

func zrun(z []ZMem, a, b int) []ZMem { // ranks 1-based inclusive, reversed when a > b
	if len(z) == 0 {
		return nil
	}
	rev := a > b
	if rev {
		a, b = b, a
	}
	out := append([]ZMem(nil), z[a-1:b]...)
	if rev {
		for i, j := 0, len(out)-1; i < j; i, j = i+1, j-1 {
			out[i], out[j] = out[j], out[i]
		}
	}
	return out
}

func (s *State) evalZSet(c Call, impl Res) (Expect, bool) {
	z := s.ZSet[c.B]
	_, bucketSeen := s.ZSet[c.B]
	n := len(z)
	switch c.F {
	case "ZAdd":
		e := Expect{}
		if strings.Contains(c.K, "|") || math.IsNaN(c.FX()) {
			e.Err = 2
		}
		if ok(impl) {
			s.zadd(c.B, ZMem{Key: c.K, Score: c.FX(), Val: c.V})
		}
		return e, true
	case "ZRem":
		i := s.zfind(c.B, c.K)
		if i < 0 {
			return Expect{Err: 2}, true
		}
		if ok(impl) {
			s.zremoveAt(c.B, i)
		}
		return Expect{}, true
	case "ZRemRangeByRank":
		if n == 0 {
			return Expect{Err: 2}, true
		}
		_, ea := zrank(n, c.I)
		_, eb := zrank(n, c.J)
		e := Expect{}
		if !ea || !eb {
			e.Err = 2
		}
		if ok(impl) {
			// the window [I,J] (either order) intersected with the ranks that exist
			lo, hi, _ := zwindow(n, c.I, c.J)
			if lo <= hi {
				s.ZSet[c.B] = append(append([]ZMem(nil), z[:lo-1]...), z[hi:]...)
			}
		}
		return e, true
	case "ZPopMax", "ZPopMin", "ZPeekMax", "ZPeekMin":
		if n == 0 {
			return Expect{Err: 2, Val: "nil"}, true
		}
		i := 0
		if strings.HasSuffix(c.F, "Max") {
			i = n - 1
		}
		m := z[i]
		if ok(impl) && strings.HasPrefix(c.F, "ZPop") {
			s.zremoveAt(c.B, i)
		}
		return Expect{Val: fmtZ(m)}, true
	case "ZCard":
		if !bucketSeen || n == 0 {
			return Expect{Err: 2, Val: "0"}, true
		}
		return Expect{Val: strconv.Itoa(n)}, true
	case "ZMembers":
		if n == 0 {
			return Expect{Err: 2, Val: "[]"}, true
		}
		byKey := append([]ZMem(nil), z...)
		sort.Slice(byKey, func(i, j int) bool { return byKey[i].Key < byKey[j].Key })
		return Expect{Val: fmtZs(byKey)}, true
	case "ZScore", "ZGetByKey":
		i := s.zfind(c.B, c.K)
		if i < 0 {
			return Expect{Err: 1}, true
		}
		if c.F == "ZScore" {
			return Expect{Val: fmtScore(z[i].Score)}, true
		}
		return Expect{Val: fmtZ(z[i])}, true
	case "ZRank", "ZRevRank":
		i := s.zfind(c.B, c.K)
		if i < 0 {
			return Expect{Err: 2, Val: "0"}, true
		}
		if c.F == "ZRank" {
			return Expect{Val: strconv.Itoa(i + 1)}, true
		}
		return Expect{Val: strconv.Itoa(n - i)}, true
	case "ZRangeByScore", "ZCount":
		lo, hi := c.FX(), c.FY()
		xlo, xhi := c.Z != nil && c.Z.ExcludeStart, c.Z != nil && c.Z.ExcludeEnd
		rev := lo > hi
		if rev {
			lo, hi = hi, lo
			xlo, xhi = xhi, xlo
		}
		var out []ZMem
		for _, m := range z {
			if (m.Score > lo || (!xlo && m.Score == lo)) && (m.Score < hi || (!xhi && m.Score == hi)) {
				out = append(out, m)
			}
		}
		if rev {
			for i, j := 0, len(out)-1; i < j; i, j = i+1, j-1 {
				out[i], out[j] = out[j], out[i]
			}
		}
		if c.Z != nil && c.Z.Limit > 0 && len(out) > c.Z.Limit {
			out = out[:c.Z.Limit]
		}
		e := Expect{Val: fmtZs(out)}
		if c.F == "ZCount" {
			e.Val = strconv.Itoa(len(out))
		}
		if !bucketSeen || n == 0 {
			e.Err = 2
		}
		return e, true
	case "ZRangeByRank":
		if n == 0 {
			return Expect{Err: 2, Val: "[]"}, true
		}
		a, ea := zrank(n, c.I)
		b, eb := zrank(n, c.J)
		if ea && eb {
			return Expect{Val: fmtZs(zrun(z, a, b))}, true
		}
		// a rank of 0 or beyond ±n: the members whose rank lies in the window, i.e. the window
		// intersected with the ranks that exist (a negative rank counts from the end, a rank that is
		// still not positive then stands for the first member); an error is accepted as well
		if lo, hi, rev := zwindow(n, c.I, c.J); true {
			var run []ZMem
			if lo <= hi {
				run = zrun(z, lo, hi)
				if rev {
					run = zrun(z, hi, lo)
				}
			}
			return Expect{Err: 2, Val: fmtZs(run)}, true
		}
		pos := map[string]int{}
		for i, m := range z {
			pos[fmtZ(m)] = i
		}
		return Expect{Err: 2, Pred: func(val string) string {
			items := splitList(val)
			dir := 0
			for i, it := range items {
				p, okm := pos[it]
				if !okm {
					return "node " + it + " is not a member"
				}
				if i > 0 {
					d := p - pos[items[i-1]]
					if d != 1 && d != -1 || dir != 0 && d != dir {
						return "nodes are not a contiguous ordered run"
					}
					dir = d
				}
			}
			return ""
		}}, true
	}
	return Expect{}, false
}
