package core

import (
	"bytes"
	"crypto/sha1"
	"encoding/binary"
	"encoding/hex"
	"fmt"
	"hash/crc32"
	"io/ioutil"
	"os"
	"path/filepath"
	"regexp"
	"sort"
	"strconv"
	"strings"
)

// Rec is one parsed data-file record.
type Rec struct {
	Off                int
	Crc                uint32
	TS                 uint64
	KS, VS, BS         uint32
	Flag, Status, Ds   uint16
	TTL                uint32
	TxID               uint64
	Bucket, Key, Value []byte
	CrcOK              bool
}

// Size is the encoded size.
func (r Rec) Size() int { return 42 + int(r.BS) + int(r.KS) + int(r.VS) }

// ParseRecords parses consecutive records of a data file image; it stops at the first all-zero
// header, short read or checksum mismatch and returns the offset reached.
func ParseRecords(b []byte) (recs []Rec, end int) {
	off := 0
	for off+42 <= len(b) {
		h := b[off : off+42]
		r := Rec{Off: off,
			Crc: binary.LittleEndian.Uint32(h[0:4]), TS: binary.LittleEndian.Uint64(h[4:12]),
			KS: binary.LittleEndian.Uint32(h[12:16]), VS: binary.LittleEndian.Uint32(h[16:20]),
			Flag: binary.LittleEndian.Uint16(h[20:22]), TTL: binary.LittleEndian.Uint32(h[22:26]),
			BS: binary.LittleEndian.Uint32(h[26:30]), Status: binary.LittleEndian.Uint16(h[30:32]),
			Ds: binary.LittleEndian.Uint16(h[32:34]), TxID: binary.LittleEndian.Uint64(h[34:42])}
		if r.Crc == 0 && r.KS == 0 && r.VS == 0 && r.TS == 0 {
			break
		}
		if uint64(off)+42+uint64(r.BS)+uint64(r.KS)+uint64(r.VS) > uint64(len(b)) {
			break
		}
		p := off + 42
		r.Bucket = b[p : p+int(r.BS)]
		p += int(r.BS)
		r.Key = b[p : p+int(r.KS)]
		p += int(r.KS)
		r.Value = b[p : p+int(r.VS)]
		r.CrcOK = crc32.ChecksumIEEE(b[off+4:off+r.Size()]) == r.Crc
		if !r.CrcOK {
			break
		}
		recs = append(recs, r)
		off += r.Size()
	}
	return recs, off
}

// RecordCuts returns the field boundaries (relative offsets, 0 < c < len(b)) of the records
// contained in a write of a data file.
func RecordCuts(b []byte) []int {
	var cuts []int
	add := func(c int) {
		if c > 0 && c < len(b) {
			cuts = append(cuts, c)
		}
	}
	recs, _ := ParseRecords(b)
	for _, r := range recs {
		for _, f := range []int{4, 12, 16, 20, 22, 26, 30, 32, 34, 42, 42 + int(r.BS), 42 + int(r.BS) + int(r.KS), r.Size()} {
			add(r.Off + f)
		}
	}
	return cuts
}

var txRe = regexp.MustCompile(`T(\d+)`)

// renumber replaces every T<id> by T#<n>, n being the order of first appearance.
func renumber(s string) string {
	seen := map[string]int{}
	return txRe.ReplaceAllStringFunc(s, func(m string) string {
		n, ok := seen[m]
		if !ok {
			n = len(seen) + 1
			seen[m] = n
		}
		return "T#" + strconv.Itoa(n)
	})
}

// DirText renders a database directory canonically: data files record by record (transaction
// ids as T<id>), every other file by content hash.
func DirText(dir string) string {
	var sb strings.Builder
	var paths []string
	filepath.Walk(dir, func(p string, info os.FileInfo, err error) error {
		if err == nil {
			paths = append(paths, p)
		}
		return nil
	})
	sort.Strings(paths)
	for _, p := range paths {
		rel, _ := filepath.Rel(dir, p)
		st, err := os.Stat(p)
		if err != nil {
			continue
		}
		if st.IsDir() {
			fmt.Fprintf(&sb, "dir %s\n", rel)
			continue
		}
		b, _ := ioutil.ReadFile(p)
		if strings.HasSuffix(p, ".dat") {
			recs, end := ParseRecords(b)
			fmt.Fprintf(&sb, "dat %s size=%d\n", rel, len(b))
			for _, r := range recs {
				fmt.Fprintf(&sb, " rec@%d ts=%d flag=%d ttl=%d st=%d ds=%d tx=T%d %q/%q=%q\n", r.Off, r.TS, r.Flag, r.TTL, r.Status, r.Ds, r.TxID, r.Bucket, r.Key, r.Value)
			}
			tail := bytes.TrimRight(b[end:], "\x00")
			if len(tail) > 0 {
				h := sha1.Sum(tail)
				fmt.Fprintf(&sb, " tail@%d %s\n", end, hex.EncodeToString(h[:8]))
			}
			continue
		}
		h := sha1.Sum(b)
		fmt.Fprintf(&sb, "file %s size=%d %s\n", rel, len(b), hex.EncodeToString(h[:8]))
	}
	return sb.String()
}

// Kappa is the canonical state of an instance: model, private state and directory.  Two
// instances with equal Kappa have equal futures (DESIGN.md 3.1).
func (in *Inst) Kappa() string {
	var sb strings.Builder
	fmt.Fprintf(&sb, "now=%d\n%s--\n", in.Model.Now, in.Model.Canon())
	if in.DB != nil && in.Poisoned == "" {
		in.DB.VerifDump(&sb)
	} else {
		sb.WriteString("nodb " + in.Poisoned + "\n")
	}
	sb.WriteString("--\n")
	sb.WriteString(DirText(in.Dir))
	h := sha1.Sum([]byte(renumber(sb.String())))
	return hex.EncodeToString(h[:10])
}

// KappaText is the text Kappa hashes (for debugging).
func (in *Inst) KappaText() string {
	var sb strings.Builder
	fmt.Fprintf(&sb, "now=%d\n%s--\n", in.Model.Now, in.Model.Canon())
	if in.DB != nil && in.Poisoned == "" {
		in.DB.VerifDump(&sb)
	}
	sb.WriteString("--\n")
	sb.WriteString(DirText(in.Dir))
	return renumber(sb.String())
}

// Hash is a short content hash.
func Hash(s string) string {
	h := sha1.Sum([]byte(s))
	return hex.EncodeToString(h[:8])
}

// HasExactFill reports whether some data segment of the directory is exactly full.
func HasExactFill(dir string, seg int64) bool {
	m, _ := filepath.Glob(filepath.Join(dir, "*.dat"))
	for _, p := range m {
		b, err := ioutil.ReadFile(p)
		if err != nil {
			continue
		}
		if _, end := ParseRecords(b); int64(end) == seg {
			return true
		}
	}
	return false
}
