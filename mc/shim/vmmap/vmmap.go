// Package vmmap stands in for github.com/xujiajun/mmap-go in the instrumented build of nutsdb.
// Stores into a mapping are plain copies and cannot be intercepted; the runtime keeps a shadow of
// every mapping and recovers the stores as diffs (vrt.SyncMaps).
package vmmap

import (
	mmap "github.com/xujiajun/mmap-go"

	"github.com/xujiajun/nutsdb/verifshim/vos"
	"github.com/xujiajun/nutsdb/verifshim/vrt"
)

// Protection and flag constants.
const (
	RDONLY = mmap.RDONLY
	RDWR   = mmap.RDWR
	COPY   = mmap.COPY
	EXEC   = mmap.EXEC
	ANON   = mmap.ANON
)

// MMap is a mapped region.
type MMap []byte

// Map maps a whole file.
func Map(f *vos.File, prot, flags int) (MMap, error) {
	vrt.Point("fs-mmap", f.Path())
	m, err := mmap.Map(f.Real(), prot, flags)
	if err != nil {
		return nil, err
	}
	if prot&mmap.RDWR != 0 && prot&mmap.COPY == 0 {
		vrt.RegisterMap(f.Path(), []byte(m))
	}
	return MMap(m), nil
}

// MapRegion maps part of a file.
func MapRegion(f *vos.File, length int, prot, flags int, offset int64) (MMap, error) {
	vrt.Point("fs-mmap", f.Path())
	m, err := mmap.MapRegion(f.Real(), length, prot, flags, offset)
	if err != nil {
		return nil, err
	}
	if offset == 0 && prot&mmap.RDWR != 0 && prot&mmap.COPY == 0 {
		vrt.RegisterMap(f.Path(), []byte(m))
	}
	return MMap(m), nil
}

// Flush synchronizes the mapping with the file.
func (m MMap) Flush() error {
	path := vrt.PathOfMap([]byte(m))
	vrt.Point("fs-sync", path)
	idx, fail, _ := vrt.Before(vrt.EvSync)
	if fail {
		return vrt.ErrInjected
	}
	err := mmap.MMap(m).Flush()
	if err == nil {
		vrt.Emit(vrt.Event{Kind: vrt.EvSync, Path: path, Inj: idx, Mmap: true})
	}
	return err
}

// Lock is mmap.Lock.
func (m MMap) Lock() error { return mmap.MMap(m).Lock() }

// Unlock is mmap.Unlock.
func (m MMap) Unlock() error { return mmap.MMap(m).Unlock() }

// Unmap deletes the mapping.
func (m *MMap) Unmap() error {
	path := vrt.PathOfMap([]byte(*m))
	vrt.Point("fs-close", path)
	vrt.UnregisterMap([]byte(*m))
	mm := mmap.MMap(*m)
	err := mm.Unmap()
	*m = MMap(mm)
	if err == nil {
		vrt.Emit(vrt.Event{Kind: vrt.EvClose, Path: path, Inj: -1, Mmap: true})
	}
	return err
}
