// Package vtime stands in for package time in the instrumented build of nutsdb: Now() answers
// from the harness' virtual clock when one is installed.
package vtime

import (
	"time"

	"github.com/xujiajun/nutsdb/verifshim/vrt"
)

// Aliased identifiers.
type (
	Time     = time.Time
	Duration = time.Duration
	Month    = time.Month
	Location = time.Location
	Timer    = time.Timer
	Ticker   = time.Ticker
)

// Constants.
const (
	Nanosecond  = time.Nanosecond
	Microsecond = time.Microsecond
	Millisecond = time.Millisecond
	Second      = time.Second
	Minute      = time.Minute
	Hour        = time.Hour
	RFC3339     = time.RFC3339
)

// Pure functions.
var (
	Unix      = time.Unix
	UnixMilli = time.UnixMilli
	Date      = time.Date
	UTC       = time.UTC
	Local     = time.Local
	After     = time.After
	NewTimer  = time.NewTimer
	NewTicker = time.NewTicker
	ParseDuration = time.ParseDuration
)

// Now returns the virtual time when a virtual clock is installed.
func Now() time.Time {
	vrt.Point("clock", "now")
	if f := vrt.NowSec; f != nil {
		return time.Unix(f(), 0)
	}
	return time.Now()
}

// Since is relative to Now.
func Since(t time.Time) time.Duration { return Now().Sub(t) }

// Until is relative to Now.
func Until(t time.Time) time.Duration { return t.Sub(Now()) }

// Sleep is a scheduling point; virtual time does not advance by itself.
func Sleep(d time.Duration) {
	vrt.Point("clock", "sleep")
	if vrt.NowSec == nil && vrt.Sched == nil {
		time.Sleep(d)
	}
}
