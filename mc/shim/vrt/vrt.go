// Package vrt is the runtime behind the verification shims (vos, vsync, vtime, vrand, vioutil,
// vmmap).  It is injected into the nutsdb module as a virtual package by `go build -overlay`; the
// harness imports it to select a mode, read the file-system event log, arm a fault or install a
// scheduler.  Nothing here is compiled without the overlay.
package vrt

import (
	"errors"
	"sync"
)

// EvKind is the kind of a file-system mutation event.
type EvKind uint8

// Event kinds.
const (
	EvMkdir EvKind = iota
	EvCreate
	EvTruncate
	EvWrite
	EvSync
	EvRemove
	EvRemoveAll
	EvRename
	EvClose
	EvMark
)

func (k EvKind) String() string {
	return [...]string{"mkdir", "create", "truncate", "write", "sync", "remove", "removeall", "rename", "close", "mark"}[k]
}

// Event is one file-system mutation actually performed by the code under test (or a harness marker).
type Event struct {
	Kind  EvKind
	Path  string
	Path2 string // rename target
	Off   int64
	Size  int64 // truncate size
	Data  []byte
	Mmap  bool   // recovered as a diff of a shared mapping against its shadow copy
	Inj   int    // index among injectable mutations of the current arm window, -1 if not injectable
	Tag   string // marker text
}

// Mode of the runtime.
type Mode int32

// Modes.
const (
	Pass   Mode = iota // shims are transparent, nothing is logged
	Record             // every mutation is appended to the log
)

// ErrInjected is the error returned by an injected fault.
var ErrInjected = errors.New("verif: injected I/O error")

// Scheduler is installed by the E3 engine; every shim entry is a scheduling point.
type Scheduler interface {
	// Point is called at every shim entry that is not a lock operation.
	Point(kind string, detail string)
	// Acquire is called before a lock is taken; it returns only when the lock is free in the
	// scheduler's own model (so the real lock call that follows cannot block).
	Acquire(m interface{}, write bool)
	// Release is called after the real lock has been released.
	Release(m interface{}, write bool)
}

type mapping struct {
	path   string
	data   []byte
	shadow []byte
}

var (
	mu       sync.Mutex
	mode     Mode
	log      []Event
	maps     []*mapping
	injArmed bool
	injNext  int // counter of injectable mutations since Arm
	injAt    int // which one fails (-1: none)
	injCut   int // bytes applied before a failing write (0: none)
	injFired bool
	injKind  EvKind

	// Sched is non-nil only while the E3 engine runs harness threads.
	Sched Scheduler
	// NowSec, when non-nil, is the virtual wall clock in seconds.
	NowSec func() int64
	// RandInt, when non-nil, answers math/rand.Int().
	RandInt func() int
	// OpenHook, when non-nil, is called for every open (read or write) with the path.
	OpenHook func(path string, create bool)
)

// SetMode selects the mode.
func SetMode(m Mode) { mu.Lock(); mode = m; mu.Unlock() }

// GetMode returns the mode.
func GetMode() Mode { return mode }

// Reset clears the log, the mappings registry and any armed fault.
func Reset() {
	mu.Lock()
	log = nil
	maps = nil
	injArmed, injNext, injAt, injCut, injFired = false, 0, -1, 0, false
	mu.Unlock()
}

// ResetLog clears only the log.
func ResetLog() { mu.Lock(); log = nil; mu.Unlock() }

// Log returns the events recorded so far (mmap diffs are flushed first).
func Log() []Event {
	SyncMaps()
	mu.Lock()
	defer mu.Unlock()
	out := make([]Event, len(log))
	copy(out, log)
	return out
}

// LogLen returns the number of events (after flushing mmap diffs).
func LogLen() int {
	SyncMaps()
	mu.Lock()
	defer mu.Unlock()
	return len(log)
}

// Mark appends a harness marker.
func Mark(tag string) {
	if mode != Record {
		return
	}
	SyncMaps()
	mu.Lock()
	log = append(log, Event{Kind: EvMark, Tag: tag, Inj: -1})
	mu.Unlock()
}

// Arm makes the at-th injectable mutation from now on fail (cut > 0: a failing write first applies
// cut bytes).  at < 0 only restarts the counter (used by the recording run to number events).
func Arm(at, cut int) {
	mu.Lock()
	injArmed, injNext, injAt, injCut, injFired = true, 0, at, cut, false
	mu.Unlock()
}

// Disarm stops counting.
func Disarm() { mu.Lock(); injArmed = false; injAt = -1; mu.Unlock() }

// Fired reports whether the armed fault was delivered, and on which kind of event.
func Fired() (bool, EvKind) { return injFired, injKind }

// Before is called by a shim before an injectable mutation.  It returns the index of this
// mutation in the arm window (or -1), whether it must fail, and the write prefix to apply.
func Before(kind EvKind) (idx int, fail bool, cut int) {
	if mode == Record {
		SyncMaps()
	}
	mu.Lock()
	defer mu.Unlock()
	if !injArmed {
		return -1, false, 0
	}
	idx = injNext
	injNext++
	if idx == injAt && !injFired {
		injFired = true
		injKind = kind
		return idx, true, injCut
	}
	return idx, false, 0
}

// Emit appends an event (Record mode only).
func Emit(ev Event) {
	if mode != Record {
		return
	}
	mu.Lock()
	if ev.Data != nil {
		ev.Data = append([]byte(nil), ev.Data...)
	}
	log = append(log, ev)
	mu.Unlock()
}

// Point is a scheduling point.
func Point(kind, detail string) {
	if s := Sched; s != nil {
		s.Point(kind, detail)
	}
}

// RegisterMap records a shared mapping so that stores into it can be recovered as diffs.
func RegisterMap(path string, data []byte) {
	if len(data) == 0 {
		return
	}
	mu.Lock()
	maps = append(maps, &mapping{path: path, data: data, shadow: append([]byte(nil), data...)})
	mu.Unlock()
}

// UnregisterMap flushes and forgets a mapping (called before Unmap).
func UnregisterMap(data []byte) {
	if len(data) == 0 {
		return
	}
	SyncMaps()
	mu.Lock()
	for i, m := range maps {
		if &m.data[0] == &data[0] {
			maps = append(maps[:i], maps[i+1:]...)
			break
		}
	}
	mu.Unlock()
}

// PathOfMap returns the path a mapping was created from.
func PathOfMap(data []byte) string {
	if len(data) == 0 {
		return ""
	}
	mu.Lock()
	defer mu.Unlock()
	for _, m := range maps {
		if &m.data[0] == &data[0] {
			return m.path
		}
	}
	return ""
}

// SyncMaps compares every live mapping with its shadow and logs the changed hull as a write.
func SyncMaps() {
	if mode != Record {
		return
	}
	mu.Lock()
	defer mu.Unlock()
	for _, m := range maps {
		lo, hi := -1, -1
		for i := range m.data {
			if m.data[i] != m.shadow[i] {
				if lo < 0 {
					lo = i
				}
				hi = i
			}
		}
		if lo < 0 {
			continue
		}
		log = append(log, Event{Kind: EvWrite, Path: m.path, Off: int64(lo), Data: append([]byte(nil), m.data[lo:hi+1]...), Mmap: true, Inj: -1})
		copy(m.shadow[lo:hi+1], m.data[lo:hi+1])
	}
}
