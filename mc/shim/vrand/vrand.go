// Package vrand stands in for math/rand in the instrumented build of nutsdb: the harness chooses
// the answers (skip-list levels become enumerated environment answers).
package vrand

import (
	"math/rand"

	"github.com/xujiajun/nutsdb/verifshim/vrt"
)

// Aliased identifiers.
type (
	Rand   = rand.Rand
	Source = rand.Source
)

// Pure constructors.
var (
	New       = rand.New
	NewSource = rand.NewSource
	Seed      = rand.Seed
)

// Int answers from the harness when a source is installed.
func Int() int {
	if f := vrt.RandInt; f != nil {
		return f()
	}
	return rand.Int()
}

// Intn is derived from Int under the harness.
func Intn(n int) int {
	if f := vrt.RandInt; f != nil {
		return f() % n
	}
	return rand.Intn(n)
}

// Int31 is derived from Int under the harness.
func Int31() int32 {
	if f := vrt.RandInt; f != nil {
		return int32(f() & 0x7fffffff)
	}
	return rand.Int31()
}

// Int31n is derived from Int under the harness.
func Int31n(n int32) int32 {
	if f := vrt.RandInt; f != nil {
		return int32(f()) % n
	}
	return rand.Int31n(n)
}

// Int63 is derived from Int under the harness.
func Int63() int64 {
	if f := vrt.RandInt; f != nil {
		return int64(f())
	}
	return rand.Int63()
}

// Int63n is derived from Int under the harness.
func Int63n(n int64) int64 {
	if f := vrt.RandInt; f != nil {
		return int64(f()) % n
	}
	return rand.Int63n(n)
}

// Uint32 is derived from Int under the harness.
func Uint32() uint32 {
	if f := vrt.RandInt; f != nil {
		return uint32(f())
	}
	return rand.Uint32()
}

// Float64 is derived from Int under the harness.
func Float64() float64 {
	if f := vrt.RandInt; f != nil {
		return float64(f()%1000) / 1000
	}
	return rand.Float64()
}

// Float32 is derived from Int under the harness.
func Float32() float32 { return float32(Float64()) }

// Perm is rand.Perm (identity under the harness).
func Perm(n int) []int {
	if vrt.RandInt != nil {
		p := make([]int, n)
		for i := range p {
			p[i] = i
		}
		return p
	}
	return rand.Perm(n)
}
