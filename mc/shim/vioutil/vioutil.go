// Package vioutil stands in for io/ioutil in the instrumented build of nutsdb.
package vioutil

import (
	"io/ioutil"
	"os"

	"github.com/xujiajun/nutsdb/verifshim/vos"
	"github.com/xujiajun/nutsdb/verifshim/vrt"
)

// Pure identifiers.
var (
	ReadAll = ioutil.ReadAll
	Discard = ioutil.Discard
	NopCloser = ioutil.NopCloser
	TempDir = ioutil.TempDir
)

// ReadDir is ioutil.ReadDir (a scheduling point).
func ReadDir(dirname string) ([]os.FileInfo, error) {
	vrt.Point("fs-readdir", dirname)
	return ioutil.ReadDir(dirname)
}

// ReadFile is ioutil.ReadFile.
func ReadFile(name string) ([]byte, error) { return vos.ReadFile(name) }

// WriteFile goes through the logged primitives.
func WriteFile(name string, data []byte, perm os.FileMode) error {
	return vos.WriteFile(name, data, perm)
}

// TempFile wraps ioutil.TempFile.
func TempFile(dir, pattern string) (*vos.File, error) {
	f, err := ioutil.TempFile(dir, pattern)
	if err != nil {
		return nil, err
	}
	name := f.Name()
	f.Close()
	return vos.OpenFile(name, os.O_RDWR, 0600)
}
