// Package vsync stands in for package sync in the instrumented build of nutsdb.
package vsync

import (
	"sync"

	"github.com/xujiajun/nutsdb/verifshim/vrt"
)

// Aliased types that need no interposition.
type (
	WaitGroup = sync.WaitGroup
	Once      = sync.Once
	Map       = sync.Map
	Pool      = sync.Pool
	Locker    = sync.Locker
	Cond      = sync.Cond
)

// NewCond is sync.NewCond.
var NewCond = sync.NewCond

// RWMutex wraps sync.RWMutex; every operation is reported to the scheduler.
type RWMutex struct{ mu sync.RWMutex }

// Lock locks for writing.
func (m *RWMutex) Lock() {
	if s := vrt.Sched; s != nil {
		s.Acquire(m, true)
	}
	m.mu.Lock()
}

// Unlock unlocks for writing.
func (m *RWMutex) Unlock() {
	m.mu.Unlock()
	if s := vrt.Sched; s != nil {
		s.Release(m, true)
	}
}

// RLock locks for reading.
func (m *RWMutex) RLock() {
	if s := vrt.Sched; s != nil {
		s.Acquire(m, false)
	}
	m.mu.RLock()
}

// RUnlock unlocks for reading.
func (m *RWMutex) RUnlock() {
	m.mu.RUnlock()
	if s := vrt.Sched; s != nil {
		s.Release(m, false)
	}
}

// RLocker returns a Locker for the read side.
func (m *RWMutex) RLocker() sync.Locker { return (*rlocker)(m) }

type rlocker RWMutex

func (r *rlocker) Lock()   { (*RWMutex)(r).RLock() }
func (r *rlocker) Unlock() { (*RWMutex)(r).RUnlock() }

// Mutex wraps sync.Mutex.
type Mutex struct{ mu sync.Mutex }

// Lock locks.
func (m *Mutex) Lock() {
	if s := vrt.Sched; s != nil {
		s.Acquire(m, true)
	}
	m.mu.Lock()
}

// Unlock unlocks.
func (m *Mutex) Unlock() {
	m.mu.Unlock()
	if s := vrt.Sched; s != nil {
		s.Release(m, true)
	}
}
