//go:build verif
// +build verif

// This file is injected into package nutsdb by the verification overlay (never part of the
// repository).  It exports what the harness needs from inside the package: a canonical dump of a
// DB's private state, accessors for unexported record fields and constructors for raw records.
package nutsdb

import (
	"fmt"
	"io"
	"sort"
)

// VerifBucket returns the bucket of an entry.
func VerifBucket(e *Entry) string {
	if e == nil || e.Meta == nil {
		return ""
	}
	return string(e.Meta.bucket)
}

// VerifMetaFields is the full header of an entry.
type VerifMetaFields struct {
	KeySize, ValueSize, BucketSize uint32
	Timestamp                      uint64
	TTL                            uint32
	Flag, Status, Ds               uint16
	TxID                           uint64
	Bucket                         []byte
}

// VerifMeta returns the header fields of an entry.
func VerifMeta(e *Entry) VerifMetaFields {
	m := e.Meta
	return VerifMetaFields{m.keySize, m.valueSize, m.bucketSize, m.timestamp, m.TTL, m.Flag, m.status, m.ds, m.txID, m.bucket}
}

// VerifNewEntry builds a raw entry.
func VerifNewEntry(key, value []byte, f VerifMetaFields) *Entry {
	return &Entry{Key: key, Value: value, Meta: &MetaData{
		keySize: f.KeySize, valueSize: f.ValueSize, bucketSize: f.BucketSize, timestamp: f.Timestamp,
		TTL: f.TTL, Flag: f.Flag, status: f.Status, ds: f.Ds, txID: f.TxID, bucket: f.Bucket}}
}

// VerifNewRootIdx builds a raw sparse root-index record.
func VerifNewRootIdx(fID, rootOff uint64, start, end []byte) *BPTreeRootIdx {
	return &BPTreeRootIdx{fID: fID, rootOff: rootOff, startSize: uint32(len(start)), endSize: uint32(len(end)), start: start, end: end}
}

// VerifRootIdxFields returns the fields of a root-index record.
func VerifRootIdxFields(b *BPTreeRootIdx) (fID, rootOff uint64, start, end []byte) {
	return b.fID, b.rootOff, b.start, b.end
}

// VerifNewBucketMeta builds a raw bucket-meta record.
func VerifNewBucketMeta(start, end []byte) *BucketMeta {
	return &BucketMeta{startSize: uint32(len(start)), endSize: uint32(len(end)), start: start, end: end}
}

// VerifBucketMetaFields returns the fields of a bucket-meta record.
func VerifBucketMetaFields(b *BucketMeta) (start, end []byte) { return b.start, b.end }

// VerifDataFileRW exposes the RWManager of a data file (to close it).
func VerifDataFileRW(df *DataFile) RWManager { return df.rwManager }

func verifHint(w io.Writer, r *Record) {
	if r == nil {
		fmt.Fprintf(w, " <nil record>")
		return
	}
	if r.H != nil {
		fmt.Fprintf(w, " h{key=%q fid=%d pos=%d", r.H.key, r.H.fileID, r.H.dataPos)
		if m := r.H.meta; m != nil {
			fmt.Fprintf(w, " ts=%d ttl=%d flag=%d st=%d ds=%d tx=T%d b=%q ks=%d vs=%d", m.timestamp, m.TTL, m.Flag, m.status, m.ds, m.txID, m.bucket, m.keySize, m.valueSize)
		}
		fmt.Fprintf(w, "}")
	}
	if r.E != nil {
		fmt.Fprintf(w, " e{%q=%q}", r.E.Key, r.E.Value)
	}
}

func verifTree(w io.Writer, name string, t *BPTree) {
	if t == nil {
		fmt.Fprintf(w, "%s <nil>\n", name)
		return
	}
	fmt.Fprintf(w, "%s valid=%d first=%q last=%q\n", name, t.ValidKeyCount, t.FirstKey, t.LastKey)
	if t.root == nil {
		return
	}
	// walk the leaf chain from the left-most leaf
	n := t.root
	for n != nil && !n.isLeaf {
		c, _ := n.pointers[0].(*Node)
		n = c
	}
	for n != nil {
		fmt.Fprintf(w, " leaf[%d]", n.KeysNum)
		for i := 0; i < n.KeysNum; i++ {
			fmt.Fprintf(w, "\n  %q", n.Keys[i])
			r, _ := n.pointers[i].(*Record)
			verifHint(w, r)
		}
		fmt.Fprintln(w)
		n, _ = n.pointers[order-1].(*Node)
	}
}

// VerifDump writes a canonical rendering of the private state.  Transaction ids are written as
// T<id> so that the caller can renumber them by first appearance.
func (db *DB) VerifDump(w io.Writer) {
	fmt.Fprintf(w, "closed=%v merging=%v maxfid=%d keycount=%d\n", db.closed, db.isMerging, db.MaxFileID, db.KeyCount)
	if db.ActiveFile != nil {
		fmt.Fprintf(w, "active fid=%d off=%d actual=%d\n", db.ActiveFile.fileID, db.ActiveFile.writeOff, db.ActiveFile.ActualSize)
	}
	var bs []string
	for b := range db.BPTreeIdx {
		bs = append(bs, b)
	}
	sort.Strings(bs)
	for _, b := range bs {
		verifTree(w, fmt.Sprintf("bpt %q", b), db.BPTreeIdx[b])
	}
	var ids []uint64
	for id := range db.committedTxIds {
		ids = append(ids, id)
	}
	sort.Slice(ids, func(i, j int) bool { return ids[i] < ids[j] })
	fmt.Fprintf(w, "committed")
	for _, id := range ids {
		fmt.Fprintf(w, " T%d", id)
	}
	fmt.Fprintln(w)
	if db.opt.EntryIdxMode == HintBPTSparseIdxMode {
		verifTree(w, "activebpt", db.ActiveBPTreeIdx)
		verifTree(w, "activetxids", db.ActiveCommittedTxIdsIdx)
		for _, r := range db.BPTreeRootIdxes {
			fmt.Fprintf(w, "rootidx fid=%d off=%d start=%q end=%q\n", r.fID, r.rootOff, r.start, r.end)
		}
		var ks []string
		for k := range db.BPTreeKeyEntryPosMap {
			ks = append(ks, k)
		}
		sort.Strings(ks)
		for _, k := range ks {
			fmt.Fprintf(w, "posmap %q=%d\n", k, db.BPTreeKeyEntryPosMap[k])
		}
		ks = nil
		for k := range db.bucketMetas {
			ks = append(ks, k)
		}
		sort.Strings(ks)
		for _, k := range ks {
			fmt.Fprintf(w, "bucketmeta %q start=%q end=%q\n", k, db.bucketMetas[k].start, db.bucketMetas[k].end)
		}
	}
	bs = nil
	for b := range db.ListIdx {
		bs = append(bs, b)
	}
	sort.Strings(bs)
	for _, b := range bs {
		var ks []string
		for k := range db.ListIdx[b].Items {
			ks = append(ks, k)
		}
		sort.Strings(ks)
		for _, k := range ks {
			fmt.Fprintf(w, "list %q %q=%q\n", b, k, db.ListIdx[b].Items[k])
		}
	}
	bs = nil
	for b := range db.SetIdx {
		bs = append(bs, b)
	}
	sort.Strings(bs)
	for _, b := range bs {
		var ks []string
		for k := range db.SetIdx[b].M {
			ks = append(ks, k)
		}
		sort.Strings(ks)
		for _, k := range ks {
			var ms []string
			for m := range db.SetIdx[b].M[k] {
				ms = append(ms, m)
			}
			sort.Strings(ms)
			fmt.Fprintf(w, "set %q %q=%q\n", b, k, ms)
		}
	}
	bs = nil
	for b := range db.SortedSetIdx {
		bs = append(bs, b)
	}
	sort.Strings(bs)
	for _, b := range bs {
		fmt.Fprintf(w, "zset %q %s\n", b, db.SortedSetIdx[b].VerifDump())
	}
}

// VerifIsMerging exposes the merging flag.
func (db *DB) VerifIsMerging() bool { return db.isMerging }

// VerifHint builds a hint for a raw BPTree insertion.
func VerifHint(key []byte, flag uint16) *Hint {
	return &Hint{key: key, meta: &MetaData{Flag: flag, keySize: uint32(len(key))}}
}

// VerifRecordKey returns the key stored in a record's hint.
func VerifRecordKey(r *Record) []byte {
	if r == nil || r.H == nil {
		return nil
	}
	return r.H.key
}

// VerifTreeCheck checks the structural invariants of a B+ tree: keys sorted inside every node,
// separators bracket their children, parent pointers, leaf chain complete and sorted.
func VerifTreeCheck(t *BPTree) string {
	if t == nil || t.root == nil {
		return ""
	}
	var leaves []*Node
	var walk func(n *Node, lo, hi []byte, depth int) string
	leafDepth := -1
	walk = func(n *Node, lo, hi []byte, depth int) string {
		if n == nil {
			return "nil child"
		}
		if n.KeysNum < 0 || n.KeysNum > order-1 {
			return fmt.Sprintf("node with %d keys", n.KeysNum)
		}
		for i := 0; i < n.KeysNum; i++ {
			if n.Keys[i] == nil {
				return fmt.Sprintf("nil key at position %d of a node with %d keys", i, n.KeysNum)
			}
			if i > 0 && compare(n.Keys[i-1], n.Keys[i]) >= 0 {
				return fmt.Sprintf("keys not ascending in a node: %q >= %q", n.Keys[i-1], n.Keys[i])
			}
			if lo != nil && compare(n.Keys[i], lo) < 0 {
				return fmt.Sprintf("key %q below the separator %q of its subtree", n.Keys[i], lo)
			}
			if hi != nil && compare(n.Keys[i], hi) >= 0 {
				return fmt.Sprintf("key %q not below the separator %q of its subtree", n.Keys[i], hi)
			}
		}
		if n.isLeaf {
			if leafDepth < 0 {
				leafDepth = depth
			} else if leafDepth != depth {
				return "leaves at different depths"
			}
			leaves = append(leaves, n)
			return ""
		}
		for i := 0; i <= n.KeysNum; i++ {
			c, _ := n.pointers[i].(*Node)
			if c == nil {
				return fmt.Sprintf("inner node: child %d of %d is nil", i, n.KeysNum+1)
			}
			if c.parent != n {
				return "child with a wrong parent pointer"
			}
			clo, chi := lo, hi
			if i > 0 {
				clo = n.Keys[i-1]
			}
			if i < n.KeysNum {
				chi = n.Keys[i]
			}
			if msg := walk(c, clo, chi, depth+1); msg != "" {
				return msg
			}
		}
		return ""
	}
	if msg := walk(t.root, nil, nil, 0); msg != "" {
		return msg
	}
	for i, l := range leaves {
		next, _ := l.pointers[order-1].(*Node)
		if i+1 < len(leaves) && next != leaves[i+1] {
			return "leaf chain skips or reorders a leaf"
		}
		if i+1 == len(leaves) && next != nil {
			return "last leaf has a successor"
		}
	}
	return ""
}
