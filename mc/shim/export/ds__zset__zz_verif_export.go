//go:build verif
// +build verif

// Injected into package zset by the verification overlay: structural dump and invariant check of
// the skip list.
package zset

import (
	"fmt"
	"sort"
	"strings"
)

// VerifDump renders the skip list (level-0 chain with the height of every node) and the Dict.
func (ss *SortedSet) VerifDump() string {
	var sb strings.Builder
	fmt.Fprintf(&sb, "len=%d level=%d hdr", ss.length, ss.level)
	// spans that queries can read (those of links ending in a node) are part of the state: two
	// histories reaching the same members with different spans are different states
	spans := func(x *SortedSetNode, n int) string {
		var p []string
		for i := 0; i < n && i < len(x.level); i++ {
			if x.level[i].forward != nil {
				p = append(p, fmt.Sprint(x.level[i].span))
			} else {
				p = append(p, "-")
			}
		}
		return strings.Join(p, ",")
	}
	fmt.Fprintf(&sb, "[%s] chain:", spans(ss.header, ss.level))
	for x := ss.header.level[0].forward; x != nil; x = x.level[0].forward {
		bk := "nil"
		if x.backward != nil {
			bk = x.backward.key
		}
		fmt.Fprintf(&sb, " (%q %v %q h%d [%s] bk=%q)", x.key, float64(x.score), x.Value, len(x.level), spans(x, len(x.level)), bk)
	}
	if ss.tail != nil {
		fmt.Fprintf(&sb, " tail=%q", ss.tail.key)
	}
	var ks []string
	for k := range ss.Dict {
		ks = append(ks, k)
	}
	sort.Strings(ks)
	fmt.Fprintf(&sb, " dict=%q", ks)
	return sb.String()
}

// VerifIsMember reports whether n is (pointer-identical to) a member node.
func (ss *SortedSet) VerifIsMember(n *SortedSetNode) bool {
	if n == nil {
		return false
	}
	return ss.Dict[n.key] == n && n != ss.header
}

// VerifCheck checks the structural invariants of the skip list and returns "" or a complaint.
func (ss *SortedSet) VerifCheck() string {
	// level-0 chain sorted by (score,key), backward pointers, tail, length, Dict <-> chain
	var chain []*SortedSetNode
	var prev *SortedSetNode
	for x := ss.header.level[0].forward; x != nil; x = x.level[0].forward {
		if len(chain) > int(ss.length)+1000 {
			return "level-0 chain does not terminate"
		}
		if prev != nil {
			if prev.score > x.score || (prev.score == x.score && prev.key >= x.key) {
				return fmt.Sprintf("chain not sorted at %q/%v -> %q/%v", prev.key, prev.score, x.key, x.score)
			}
		}
		if x.backward != prev {
			return fmt.Sprintf("backward pointer of %q wrong", x.key)
		}
		if ss.Dict[x.key] != x {
			return fmt.Sprintf("chain node %q not in Dict", x.key)
		}
		chain = append(chain, x)
		prev = x
	}
	if int64(len(chain)) != ss.length {
		return fmt.Sprintf("length=%d but chain has %d nodes", ss.length, len(chain))
	}
	if len(ss.Dict) != len(chain) {
		return fmt.Sprintf("Dict has %d keys but chain has %d nodes", len(ss.Dict), len(chain))
	}
	if ss.tail != prev {
		return "tail does not point to the last node"
	}
	rank := map[*SortedSetNode]int{ss.header: 0}
	for i, x := range chain {
		rank[x] = i + 1
	}
	if ss.level < 1 || ss.level > SkipListMaxLevel {
		return fmt.Sprintf("level=%d out of range", ss.level)
	}
	for i := 0; i < SkipListMaxLevel; i++ {
		x := ss.header
		steps := 0
		for x != nil {
			if i >= len(x.level) {
				return fmt.Sprintf("node %q reached on level %d but has height %d", x.key, i, len(x.level))
			}
			f := x.level[i].forward
			if f == nil {
				break // trailing spans are never read by any query
			}
			if i >= ss.level {
				return fmt.Sprintf("level %d used but ss.level=%d", i, ss.level)
			}
			r, ok := rank[f]
			if !ok {
				return fmt.Sprintf("level %d: forward of %q is not in the chain", i, x.key)
			}
			if int64(r-rank[x]) != x.level[i].span {
				return fmt.Sprintf("level %d: span of %q is %d, want %d", i, x.key, x.level[i].span, r-rank[x])
			}
			x = f
			steps++
			if steps > len(chain)+1 {
				return fmt.Sprintf("level %d does not terminate", i)
			}
		}
	}
	return ""
}
