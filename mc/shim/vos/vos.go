// Package vos stands in for package os in the instrumented build of nutsdb: every mutation of the
// file system goes through a wrapper that logs it, may fail it (fault injection) and is a
// scheduling point.  Read-only identifiers are aliased.
package vos

import (
	"io"
	"os"
	"path/filepath"

	"github.com/xujiajun/nutsdb/verifshim/vrt"
)

// Aliased identifiers.
type (
	FileInfo   = os.FileInfo
	FileMode   = os.FileMode
	PathError  = os.PathError
	DirEntry   = os.DirEntry
	Signal     = os.Signal
	LinkError  = os.LinkError
	SyscallErr = os.SyscallError
)

// Constants.
const (
	O_RDONLY = os.O_RDONLY
	O_WRONLY = os.O_WRONLY
	O_RDWR   = os.O_RDWR
	O_APPEND = os.O_APPEND
	O_CREATE = os.O_CREATE
	O_EXCL   = os.O_EXCL
	O_SYNC   = os.O_SYNC
	O_TRUNC  = os.O_TRUNC

	ModePerm   = os.ModePerm
	ModeDir    = os.ModeDir
	ModeAppend = os.ModeAppend

	PathSeparator     = os.PathSeparator
	PathListSeparator = os.PathListSeparator

	SEEK_SET = os.SEEK_SET
	SEEK_CUR = os.SEEK_CUR
	SEEK_END = os.SEEK_END
)

// Variables and read-only functions.
var (
	ErrInvalid    = os.ErrInvalid
	ErrPermission = os.ErrPermission
	ErrExist      = os.ErrExist
	ErrNotExist   = os.ErrNotExist
	ErrClosed     = os.ErrClosed

	Stdin  = &File{File: os.Stdin, path: "/dev/stdin"}
	Stdout = &File{File: os.Stdout, path: "/dev/stdout"}
	Stderr = &File{File: os.Stderr, path: "/dev/stderr"}
	Args   = os.Args

	IsNotExist   = os.IsNotExist
	IsExist      = os.IsExist
	IsPermission = os.IsPermission
	IsTimeout    = os.IsTimeout
	Getpid       = os.Getpid
	Getenv       = os.Getenv
	LookupEnv    = os.LookupEnv
	Setenv       = os.Setenv
	Getwd        = os.Getwd
	TempDir      = os.TempDir
	Exit         = os.Exit
	Hostname     = os.Hostname
	ReadDir      = os.ReadDir
	SameFile     = os.SameFile
	Getpagesize  = os.Getpagesize
	IsPathSeparator = os.IsPathSeparator
)

func clean(p string) string {
	if a, err := filepath.Abs(p); err == nil {
		return a
	}
	return filepath.Clean(p)
}

func exists(p string) bool {
	_, err := os.Lstat(p)
	return err == nil
}

// Stat is os.Stat (a scheduling point).
func Stat(name string) (FileInfo, error) {
	vrt.Point("fs-stat", name)
	return os.Stat(name)
}

// Lstat is os.Lstat.
func Lstat(name string) (FileInfo, error) {
	vrt.Point("fs-stat", name)
	return os.Lstat(name)
}

// ReadFile is os.ReadFile.
func ReadFile(name string) ([]byte, error) {
	vrt.Point("fs-open-for-read", name)
	return os.ReadFile(name)
}

// File wraps *os.File.
type File struct {
	*os.File
	path string
}

// Real returns the wrapped file.
func (f *File) Real() *os.File {
	if f == nil {
		return nil
	}
	return f.File
}

// Path returns the absolute path the file was opened with.
func (f *File) Path() string { return f.path }

// OpenFile wraps os.OpenFile.
func OpenFile(name string, flag int, perm FileMode) (*File, error) {
	p := clean(name)
	creates := flag&os.O_CREATE != 0 && !exists(p)
	truncs := flag&os.O_TRUNC != 0 && !creates && exists(p)
	if flag&(os.O_WRONLY|os.O_RDWR|os.O_CREATE|os.O_TRUNC|os.O_APPEND) != 0 {
		vrt.Point("fs-open", p)
	} else {
		vrt.Point("fs-open-for-read", p)
	}
	if h := vrt.OpenHook; h != nil {
		h(p, creates)
	}
	idx := -1
	if creates || truncs {
		var fail bool
		k := vrt.EvCreate
		if truncs {
			k = vrt.EvTruncate
		}
		idx, fail, _ = vrt.Before(k)
		if fail {
			return nil, &os.PathError{Op: "open", Path: name, Err: vrt.ErrInjected}
		}
	}
	f, err := os.OpenFile(name, flag, perm)
	if err != nil {
		return nil, err
	}
	if creates {
		vrt.Emit(vrt.Event{Kind: vrt.EvCreate, Path: p, Inj: idx})
	} else if truncs {
		vrt.Emit(vrt.Event{Kind: vrt.EvTruncate, Path: p, Size: 0, Inj: idx})
	}
	return &File{File: f, path: p}, nil
}

// Open wraps os.Open.
func Open(name string) (*File, error) { return OpenFile(name, os.O_RDONLY, 0) }

// Create wraps os.Create.
func Create(name string) (*File, error) {
	return OpenFile(name, os.O_RDWR|os.O_CREATE|os.O_TRUNC, 0666)
}

// NewFile is not supported by the shim (no caller in nutsdb); it wraps without a path.
func NewFile(fd uintptr, name string) *File {
	return &File{File: os.NewFile(fd, name), path: name}
}

// Close logs and closes; a nil receiver behaves like (*os.File)(nil).Close().
func (f *File) Close() error {
	if f == nil || f.File == nil {
		return os.ErrInvalid
	}
	vrt.Point("fs-close", f.path)
	err := f.File.Close()
	if err == nil {
		vrt.Emit(vrt.Event{Kind: vrt.EvClose, Path: f.path, Inj: -1})
	}
	return err
}

// ReadAt is a scheduling point (class fs-read) before the real read.
func (f *File) ReadAt(b []byte, off int64) (int, error) {
	if f == nil || f.File == nil {
		return 0, os.ErrInvalid
	}
	vrt.Point("fs-read", f.path)
	return f.File.ReadAt(b, off)
}

// Read is a scheduling point (class fs-read) before the real read.
func (f *File) Read(b []byte) (int, error) {
	if f == nil || f.File == nil {
		return 0, os.ErrInvalid
	}
	vrt.Point("fs-read", f.path)
	return f.File.Read(b)
}

// WriteAt wraps (*os.File).WriteAt.
func (f *File) WriteAt(b []byte, off int64) (int, error) {
	if f == nil || f.File == nil {
		return 0, os.ErrInvalid
	}
	vrt.Point("fs-write", f.path)
	idx, fail, cut := vrt.Before(vrt.EvWrite)
	if fail {
		if cut > len(b) {
			cut = len(b)
		}
		if cut > 0 {
			n, _ := f.File.WriteAt(b[:cut], off)
			vrt.Emit(vrt.Event{Kind: vrt.EvWrite, Path: f.path, Off: off, Data: b[:n], Inj: idx})
			return n, &os.PathError{Op: "write", Path: f.path, Err: vrt.ErrInjected}
		}
		return 0, &os.PathError{Op: "write", Path: f.path, Err: vrt.ErrInjected}
	}
	n, err := f.File.WriteAt(b, off)
	if n > 0 {
		vrt.Emit(vrt.Event{Kind: vrt.EvWrite, Path: f.path, Off: off, Data: b[:n], Inj: idx})
	}
	return n, err
}

// Write wraps (*os.File).Write.
func (f *File) Write(b []byte) (int, error) {
	if f == nil || f.File == nil {
		return 0, os.ErrInvalid
	}
	off, err := f.File.Seek(0, 1)
	if err != nil {
		return 0, err
	}
	vrt.Point("fs-write", f.path)
	idx, fail, cut := vrt.Before(vrt.EvWrite)
	if fail {
		if cut > len(b) {
			cut = len(b)
		}
		if cut > 0 {
			n, _ := f.File.Write(b[:cut])
			vrt.Emit(vrt.Event{Kind: vrt.EvWrite, Path: f.path, Off: off, Data: b[:n], Inj: idx})
			return n, &os.PathError{Op: "write", Path: f.path, Err: vrt.ErrInjected}
		}
		return 0, &os.PathError{Op: "write", Path: f.path, Err: vrt.ErrInjected}
	}
	n, err := f.File.Write(b)
	if n > 0 {
		vrt.Emit(vrt.Event{Kind: vrt.EvWrite, Path: f.path, Off: off, Data: b[:n], Inj: idx})
	}
	return n, err
}

// WriteString wraps (*os.File).WriteString.
func (f *File) WriteString(s string) (int, error) { return f.Write([]byte(s)) }

// ReadFrom must not bypass Write.
func (f *File) ReadFrom(r io.Reader) (int64, error) {
	var total int64
	buf := make([]byte, 32*1024)
	for {
		n, err := r.Read(buf)
		if n > 0 {
			w, werr := f.Write(buf[:n])
			total += int64(w)
			if werr != nil {
				return total, werr
			}
		}
		if err != nil {
			if err == io.EOF {
				return total, nil
			}
			return total, err
		}
	}
}

// Truncate wraps (*os.File).Truncate.
func (f *File) Truncate(size int64) error {
	if f == nil || f.File == nil {
		return os.ErrInvalid
	}
	vrt.Point("fs-truncate", f.path)
	idx, fail, _ := vrt.Before(vrt.EvTruncate)
	if fail {
		return &os.PathError{Op: "truncate", Path: f.path, Err: vrt.ErrInjected}
	}
	err := f.File.Truncate(size)
	if err == nil {
		vrt.Emit(vrt.Event{Kind: vrt.EvTruncate, Path: f.path, Size: size, Inj: idx})
	}
	return err
}

// Sync wraps (*os.File).Sync.
func (f *File) Sync() error {
	if f == nil || f.File == nil {
		return os.ErrInvalid
	}
	vrt.Point("fs-sync", f.path)
	idx, fail, _ := vrt.Before(vrt.EvSync)
	if fail {
		return &os.PathError{Op: "sync", Path: f.path, Err: vrt.ErrInjected}
	}
	err := f.File.Sync()
	if err == nil {
		vrt.Emit(vrt.Event{Kind: vrt.EvSync, Path: f.path, Inj: idx})
	}
	return err
}

// Truncate wraps os.Truncate.
func Truncate(name string, size int64) error {
	p := clean(name)
	vrt.Point("fs-truncate", p)
	idx, fail, _ := vrt.Before(vrt.EvTruncate)
	if fail {
		return &os.PathError{Op: "truncate", Path: name, Err: vrt.ErrInjected}
	}
	err := os.Truncate(name, size)
	if err == nil {
		vrt.Emit(vrt.Event{Kind: vrt.EvTruncate, Path: p, Size: size, Inj: idx})
	}
	return err
}

// Mkdir wraps os.Mkdir.
func Mkdir(name string, perm FileMode) error {
	p := clean(name)
	vrt.Point("fs-mkdir", p)
	idx, fail, _ := vrt.Before(vrt.EvMkdir)
	if fail {
		return &os.PathError{Op: "mkdir", Path: name, Err: vrt.ErrInjected}
	}
	err := os.Mkdir(name, perm)
	if err == nil {
		vrt.Emit(vrt.Event{Kind: vrt.EvMkdir, Path: p, Inj: idx})
	}
	return err
}

// MkdirAll wraps os.MkdirAll.
func MkdirAll(name string, perm FileMode) error {
	p := clean(name)
	vrt.Point("fs-mkdir", p)
	existed := exists(p)
	idx := -1
	if !existed {
		var fail bool
		idx, fail, _ = vrt.Before(vrt.EvMkdir)
		if fail {
			return &os.PathError{Op: "mkdir", Path: name, Err: vrt.ErrInjected}
		}
	}
	err := os.MkdirAll(name, perm)
	if err == nil && !existed {
		vrt.Emit(vrt.Event{Kind: vrt.EvMkdir, Path: p, Inj: idx})
	}
	return err
}

// Remove wraps os.Remove.
func Remove(name string) error {
	p := clean(name)
	vrt.Point("fs-remove", p)
	idx, fail, _ := vrt.Before(vrt.EvRemove)
	if fail {
		return &os.PathError{Op: "remove", Path: name, Err: vrt.ErrInjected}
	}
	err := os.Remove(name)
	if err == nil {
		vrt.Emit(vrt.Event{Kind: vrt.EvRemove, Path: p, Inj: idx})
	}
	return err
}

// RemoveAll wraps os.RemoveAll.
func RemoveAll(name string) error {
	p := clean(name)
	vrt.Point("fs-remove", p)
	idx, fail, _ := vrt.Before(vrt.EvRemoveAll)
	if fail {
		return &os.PathError{Op: "removeall", Path: name, Err: vrt.ErrInjected}
	}
	had := exists(p)
	err := os.RemoveAll(name)
	if err == nil && had {
		vrt.Emit(vrt.Event{Kind: vrt.EvRemoveAll, Path: p, Inj: idx})
	}
	return err
}

// Rename wraps os.Rename.
func Rename(oldpath, newpath string) error {
	p, q := clean(oldpath), clean(newpath)
	vrt.Point("fs-rename", p)
	idx, fail, _ := vrt.Before(vrt.EvRename)
	if fail {
		return &os.LinkError{Op: "rename", Old: oldpath, New: newpath, Err: vrt.ErrInjected}
	}
	err := os.Rename(oldpath, newpath)
	if err == nil {
		vrt.Emit(vrt.Event{Kind: vrt.EvRename, Path: p, Path2: q, Inj: idx})
	}
	return err
}

// WriteFile wraps os.WriteFile through the logged primitives.
func WriteFile(name string, data []byte, perm FileMode) error {
	f, err := OpenFile(name, os.O_WRONLY|os.O_CREATE|os.O_TRUNC, perm)
	if err != nil {
		return err
	}
	_, err = f.Write(data)
	if err1 := f.Close(); err1 != nil && err == nil {
		err = err1
	}
	return err
}

// Chmod is os.Chmod (not a content mutation).
func Chmod(name string, mode FileMode) error { return os.Chmod(name, mode) }
