// Instrumented copy of github.com/xujiajun/utils/filesystem/filesystem.go, substituted through
// the verification overlay.  The code is the original; every file-system call is preceded by a
// call of VerifPoint (a scheduling point of the E3 engine) when the harness has set it.  The file
// is self-contained: a replaced file of a module-cache package cannot import the verifshim
// packages.
package filesystem

import (
	"io"
	"io/ioutil"
	"os"
	"path"
)

// VerifPoint, when set, is called before every file-system call of this package.
var VerifPoint func(kind, detail string)

func vp(kind, detail string) {
	if f := VerifPoint; f != nil {
		f(kind, detail)
	}
}

func PathIsExist(path string) bool {
	_, err := os.Stat(path)
	if err != nil && os.IsNotExist(err) {
		return false
	}
	return true
}

//reference: https://blog.depado.eu/post/copy-files-and-directories-in-go
func CopyDir(src string, dst string) error {
	var (
		err     error
		fds     []os.FileInfo
		srcinfo os.FileInfo
	)

	vp("copy-stat", src)
	if srcinfo, err = os.Stat(src); err != nil {
		return err
	}

	vp("copy-mkdir", dst)
	if err = os.MkdirAll(dst, srcinfo.Mode()); err != nil {
		return err
	}

	vp("copy-readdir", src)
	if fds, err = ioutil.ReadDir(src); err != nil {
		return err
	}
	for _, fd := range fds {
		srcfp := path.Join(src, fd.Name())
		dstfp := path.Join(dst, fd.Name())

		if fd.IsDir() {
			if err = CopyDir(srcfp, dstfp); err != nil {
				return err
			}
		} else {
			if err = CopyFile(srcfp, dstfp); err != nil {
				return err
			}
		}
	}
	return nil
}

func CopyFile(src, dst string) error {
	var (
		err     error
		srcfd   *os.File
		dstfd   *os.File
		srcinfo os.FileInfo
	)

	vp("copy-open", src)
	if srcfd, err = os.Open(src); err != nil {
		return err
	}

	defer srcfd.Close()

	vp("copy-create", dst)
	if dstfd, err = os.Create(dst); err != nil {
		return err
	}

	defer dstfd.Close()

	vp("copy-data", src)
	if _, err = io.Copy(dstfd, srcfd); err != nil {
		return err
	}

	if srcinfo, err = os.Stat(src); err != nil {
		return err
	}

	return os.Chmod(dst, srcinfo.Mode())
}
